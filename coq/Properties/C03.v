(* C03 — Attestation statements bind credential, ceremony data and format rules. *)
From Coq Require Import ZArith List Bool String.
From PW Require Import Model.Base Model.Cbor Model.AuthData Model.Oracles Model.CredJson Model.Cose Model.SigAlg Model.Tpm Model.Formats Spec.RegSpec
  Model.VerifyReg Spec.FormatSpec Proofs.FormatProofs Proofs.RegProofs.
Import ListNotations.
Open Scope Z_scope.

(* One soundness theorem per format verifier, for ARBITRARY oracles: acceptance implies the declared rules,
   each stated over exactly the authenticator data and client data presented (auth_data ++ SHA-256(cdj)) and
   the credential public key that registration returns. *)
Theorem C03_packed : forall O now st ad cdj pk roots,
  verify_packed O now st ad cdj pk roots = Ok tt -> PackedOk O now st ad cdj pk roots.
Proof. exact verify_packed_sound. Qed.
Print Assumptions C03_packed.

Theorem C03_fido_u2f : forall O now st cdj rph cid pk aaguid roots,
  verify_fido_u2f O now st cdj rph cid pk aaguid roots = Ok tt -> U2fOk O now st cdj rph cid pk aaguid roots.
Proof. exact verify_fido_u2f_sound. Qed.
Print Assumptions C03_fido_u2f.

Theorem C03_tpm : forall O now st ad cdj pk roots,
  verify_tpm O now st ad cdj pk roots = Ok tt -> TpmOk O now st ad cdj pk roots.
Proof. exact verify_tpm_sound. Qed.
Print Assumptions C03_tpm.

Theorem C03_tpm_aik_profile : forall c, check_aik_cert c = Ok tt -> AikOk c.
Proof. exact check_aik_cert_sound. Qed.
Print Assumptions C03_tpm_aik_profile.

Theorem C03_apple : forall O now st ad cdj pk roots builtin,
  verify_apple O now st ad cdj pk roots builtin = Ok tt -> AppleOk O now st ad cdj pk roots builtin.
Proof. exact verify_apple_sound. Qed.
Print Assumptions C03_apple.

Theorem C03_android_key : forall O now st ad cdj pk roots builtin,
  verify_android_key O now st ad cdj pk roots builtin = Ok tt -> AndroidKeyOk O now st ad cdj pk roots builtin.
Proof. exact verify_android_key_sound. Qed.
Print Assumptions C03_android_key.

Theorem C03_android_safetynet : forall O now st ad cdj roots builtin,
  verify_safetynet O now st ad cdj roots builtin = Ok tt -> SafetyNetOk O now st ad cdj roots builtin.
Proof. exact verify_safetynet_sound. Qed.
Print Assumptions C03_android_safetynet.

(* the statement verifier is handed the raw authenticator data of the attestation object, the raw client data
   and the credential public key bytes that are returned: an accepted registration went through the dispatch
   on exactly those *)
Theorem C03_wiring : forall O P c r, verify_reg_rec O P c = Ok r ->
  exists ao att fmt, parse_att_object (rcr_att_obj c) = Ok ao /\ ad_att (ao_auth_data ao) = Some att /\
    ao_fmt ao = CText fmt /\ vr_pubkey r = ac_pubkey att /\ vr_cred_id r = ac_cred_id att /\
    verify_statement O P fmt (ao_stmt ao) (ao_auth_data_raw ao) (rcr_client_data c) (ao_auth_data ao) att = Ok tt.
Proof.
  intros O P c r H. apply verify_reg_rec_sound in H.
  destruct H as [_ _ _ (ao & h & att & dk & alg & fmt & ag & Hao & _ & _ & _ & _ & Hatt & _ & _ & _ & _ & _ & _ & Hfmt & Hst & _ & _ & ->)].
  exists ao, att, fmt. cbn. repeat split; auto.
Qed.
Print Assumptions C03_wiring.

(* ---- each format verifier is CHARACTERISED by its declared rules (iff): nothing more is demanded than the
   rules say, so every statement meeting them is accepted (per-format completeness, also used by C05) ---- *)
From PW Require Import Proofs.FormatComplete.

Theorem C03_packed_iff : forall O now st ad cdj pk roots,
  verify_packed O now st ad cdj pk roots = Ok tt <-> PackedOk O now st ad cdj pk roots.
Proof. exact verify_packed_iff. Qed.
Print Assumptions C03_packed_iff.

Theorem C03_fido_u2f_iff : forall O now st cdj rph cid pk aaguid roots,
  verify_fido_u2f O now st cdj rph cid pk aaguid roots = Ok tt <-> U2fOk O now st cdj rph cid pk aaguid roots.
Proof. exact verify_fido_u2f_iff. Qed.
Print Assumptions C03_fido_u2f_iff.

Theorem C03_tpm_iff : forall O now st ad cdj pk roots,
  verify_tpm O now st ad cdj pk roots = Ok tt <-> TpmOk O now st ad cdj pk roots.
Proof. exact verify_tpm_iff. Qed.
Print Assumptions C03_tpm_iff.

Theorem C03_aik_profile_iff : forall c, check_aik_cert c = Ok tt <-> AikOk c.
Proof. exact check_aik_cert_iff. Qed.
Print Assumptions C03_aik_profile_iff.

Theorem C03_apple_iff : forall O now st ad cdj pk roots builtin,
  verify_apple O now st ad cdj pk roots builtin = Ok tt <-> AppleOk O now st ad cdj pk roots builtin.
Proof. exact verify_apple_iff. Qed.
Print Assumptions C03_apple_iff.

Theorem C03_android_key_iff : forall O now st ad cdj pk roots builtin,
  verify_android_key O now st ad cdj pk roots builtin = Ok tt <-> AndroidKeyOk O now st ad cdj pk roots builtin.
Proof. exact verify_android_key_iff. Qed.
Print Assumptions C03_android_key_iff.

Theorem C03_android_safetynet_iff : forall O now st ad cdj roots builtin,
  verify_safetynet O now st ad cdj roots builtin = Ok tt <-> SafetyNetOk O now st ad cdj roots builtin.
Proof. exact verify_safetynet_iff. Qed.
Print Assumptions C03_android_safetynet_iff.

(* the dispatch: a statement is accepted iff it meets the declared rules of the format it NAMES (all seven
   formats; any other format name is refused) *)
Theorem C03_statement_iff : forall O P fmt st adr cdj ad att,
  verify_statement O P fmt st adr cdj ad att = Ok tt <-> StatementRules O P fmt st adr cdj ad att.
Proof. exact verify_statement_iff. Qed.
Print Assumptions C03_statement_iff.

(* non-vacuity: a real packed self-attestation statement (kernel-evaluated) is accepted and meets the rules;
   with one bit of the authenticator data flipped it is refused *)
From PW Require Import Proofs.Examples2.
Example C03_nonvacuous : verify_packed px_oracles 0 px_stmt px_ad px_cdj px_key [] = Ok tt /\ PackedOk px_oracles 0 px_stmt px_ad px_cdj px_key [].
Proof. split; [exact packed_example_statement|exact packed_example_meets_the_rules]. Qed.
Print Assumptions C03_nonvacuous.
