(* Extraction of the executable model (Model/* and the executable path search of Spec/ChainSpec — independent of Proofs).
   ExtrOcamlBasic only: bool/option/list/prod/unit/sumbool/sum map to OCaml natives;
   Z / positive / nat stay the extracted inductives.  No Extract Constant. *)
From Coq Require Extraction ExtrOcamlBasic.
From PW Require Import Model.Base Model.SigTypes Model.Base64 Model.Utf8 Model.Cbor Model.Json Model.AuthData
  Model.Oracles Model.ClientData Model.CredJson Model.Cose Model.SigAlg Model.VerifyAuth Model.Tpm Model.Formats Model.VerifyReg Model.Options Model.OptionsJson Spec.ChainSpec.
Extraction Language OCaml.
Extraction "model.ml" b64url_enc b64url_dec b64std_enc be_int slice
  cbor_loads cbor_enc parse_auth_data parse_backup_flags aaguid_to_string
  parse_client_data parse_auth_cred_json parse_reg_cred_json decode_credential_public_key to_crypto
  verify_signature hash_by_alg verify_auth counter_ok rp_step bind
  verify_reg parse_cert_info parse_pub_area attr_bit attr_positions timestamp_ok manufacturer_known
  gen_reg gen_auth creation_options_json request_options_json parse_reg_options_json parse_auth_options_json chain_acceptable_b.
