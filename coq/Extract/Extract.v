(* Extraction of the executable model (Model/* only — independent of Proofs).
   ExtrOcamlBasic only: bool/option/list/prod/unit/sumbool map to OCaml natives;
   Z / positive / nat stay the extracted inductives.  No Extract Constant. *)
From Coq Require Extraction ExtrOcamlBasic.
From PW Require Import Model.Base Model.SigTypes Model.Base64.
Extraction Language OCaml.
Extraction "model.ml" b64url_enc b64url_dec b64std_enc be_int slice.
