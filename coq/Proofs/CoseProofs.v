From Coq Require Import ZArith List Bool Lia String.
From PW Require Import Model.Base Model.SigTypes Model.Utf8 Model.Cbor Model.Oracles Model.Cose Generated.Constants
  Spec.CoseSpec Proofs.Tactics Proofs.CborProofs Proofs.AuthDataExact.
Import ListNotations.
Open Scope Z_scope.

Definition small (z : Z) : Prop := - 2 ^ 64 <= z < 2 ^ 64.
Definition blen_ok (b : bytes) : Prop := b <> [] /\ len b < 2 ^ 64.

Lemma labels : L_KTY = 1 /\ L_ALG = 3 /\ L_CRV = -1 /\ L_X = -2 /\ L_Y = -3 /\ L_N = -1 /\ L_E = -2 /\
               KTY_OKP = 1 /\ KTY_EC2 = 2 /\ KTY_RSA = 3.
Proof. vm_compute. repeat split. Qed.

Lemma wf_ec2 alg crv x y : small alg -> small crv -> len x < 2 ^ 64 -> len y < 2 ^ 64 -> wfd (cose_ec2 alg crv x y).
Proof.
  intros Ha Hc Hx Hy. split; [|cbn; unfold max_depth; lia]. unfold cose_ec2, small in *. apply wf_map. split; [unfold len; cbn; lia|].
  cbn [wf_pairs key_ok forallb app wf key_eqb negb andb Z.eqb Pos.eqb]. repeat split; auto; lia.
Qed.
Lemma wf_okp alg crv x : small alg -> small crv -> len x < 2 ^ 64 -> wfd (cose_okp alg crv x).
Proof.
  intros Ha Hc Hx. split; [|cbn; unfold max_depth; lia]. unfold cose_okp, small in *. apply wf_map. split; [unfold len; cbn; lia|].
  cbn [wf_pairs key_ok forallb app wf key_eqb negb andb Z.eqb Pos.eqb]. repeat split; auto; lia.
Qed.
Lemma wf_rsa alg n e : small alg -> len n < 2 ^ 64 -> len e < 2 ^ 64 -> wfd (cose_rsa alg n e).
Proof.
  intros Ha Hn He. split; [|cbn; unfold max_depth; lia]. unfold cose_rsa, small in *. apply wf_map. split; [unfold len; cbn; lia|].
  cbn [wf_pairs key_ok forallb app wf key_eqb negb andb Z.eqb Pos.eqb]. repeat split; auto; lia.
Qed.

Lemma falsy_bytes b : b <> [] -> cbor_falsy (CBytes b) = false.
Proof. destruct b; cbn; congruence. Qed.
Lemma falsy_int z : z <> 0 -> cbor_falsy (CInt z) = false.
Proof. intros H. cbn. apply Z.eqb_neq, H. Qed.

(* the canonical encoding of a map with n < 24 entries starts with byte 0xA0 + n: never 0x04 *)
Ltac head_not_4 := cbn [cbor_enc cbor_head len length app Z.of_nat Pos.of_succ_nat Pos.succ Z.ltb Z.compare Pos.compare Pos.compare_cont Z.mul Pos.mul Z.add Pos.add].

Theorem decode_ec2 alg crv x y :
  small alg -> small crv -> alg <> 0 -> crv <> 0 -> blen_ok x -> blen_ok y ->
  decode_credential_public_key (cbor_enc (cose_ec2 alg crv x y)) =
    Ok (DEC2 (CInt alg) (CInt crv) (CBytes x) (CBytes y)).
Proof.
  intros Ha Hc Ha0 Hc0 [Hx0 Hx] [Hy0 Hy].
  pose proof (wf_ec2 alg crv x y Ha Hc Hx Hy) as W.
  pose proof (parse_cbor_enc _ [] W) as P. rewrite app_nil_r in P.
  unfold decode_credential_public_key.
  destruct (cbor_enc (cose_ec2 alg crv x y)) as [|b0 rest] eqn:E; [discriminate E|].
  assert (Hb : b0 = 165) by (cbn in E; injection E as <- _; reflexivity). subst b0.
  cbn [Z.eqb Pos.eqb]. rewrite P. cbn [bind].
  destruct labels as (-> & -> & -> & -> & -> & -> & -> & -> & -> & ->).
  unfold must_get, truthy. cbn [cose_ec2 dict_get key_eqb Z.eqb Pos.eqb bind].
  rewrite (falsy_int 2) by lia. rewrite (falsy_int alg) by exact Ha0. cbn [negb guard bind cbor_eq_int Z.eqb Pos.eqb].
  rewrite (falsy_int crv) by exact Hc0. rewrite (falsy_bytes x Hx0), (falsy_bytes y Hy0). reflexivity.
Qed.

Theorem decode_okp alg crv x :
  small alg -> small crv -> alg <> 0 -> crv <> 0 -> blen_ok x ->
  decode_credential_public_key (cbor_enc (cose_okp alg crv x)) = Ok (DOKP (CInt alg) (CInt crv) (CBytes x)).
Proof.
  intros Ha Hc Ha0 Hc0 [Hx0 Hx].
  pose proof (wf_okp alg crv x Ha Hc Hx) as W.
  pose proof (parse_cbor_enc _ [] W) as P. rewrite app_nil_r in P.
  unfold decode_credential_public_key.
  destruct (cbor_enc (cose_okp alg crv x)) as [|b0 rest] eqn:E; [discriminate E|].
  assert (Hb : b0 = 164) by (cbn in E; injection E as <- _; reflexivity). subst b0.
  cbn [Z.eqb Pos.eqb]. rewrite P. cbn [bind].
  destruct labels as (-> & -> & -> & -> & -> & -> & -> & -> & -> & ->).
  unfold must_get, truthy. cbn [cose_okp dict_get key_eqb Z.eqb Pos.eqb bind].
  rewrite (falsy_int 1) by lia. rewrite (falsy_int alg) by exact Ha0. cbn [negb guard bind cbor_eq_int Z.eqb Pos.eqb].
  rewrite (falsy_int crv) by exact Hc0. rewrite (falsy_bytes x Hx0). reflexivity.
Qed.

Theorem decode_rsa alg n e :
  small alg -> alg <> 0 -> blen_ok n -> blen_ok e ->
  decode_credential_public_key (cbor_enc (cose_rsa alg n e)) = Ok (DRSA (CInt alg) (CBytes n) (CBytes e)).
Proof.
  intros Ha Ha0 [Hn0 Hn] [He0 He].
  pose proof (wf_rsa alg n e Ha Hn He) as W.
  pose proof (parse_cbor_enc _ [] W) as P. rewrite app_nil_r in P.
  unfold decode_credential_public_key.
  destruct (cbor_enc (cose_rsa alg n e)) as [|b0 rest] eqn:E; [discriminate E|].
  assert (Hb : b0 = 164) by (cbn in E; injection E as <- _; reflexivity). subst b0.
  cbn [Z.eqb Pos.eqb]. rewrite P. cbn [bind].
  destruct labels as (-> & -> & -> & -> & -> & -> & -> & -> & -> & ->).
  unfold must_get, truthy. cbn [cose_rsa dict_get key_eqb Z.eqb Pos.eqb bind].
  rewrite (falsy_int 3) by lia. rewrite (falsy_int alg) by exact Ha0. cbn [negb guard bind cbor_eq_int Z.eqb Pos.eqb].
  rewrite (falsy_bytes n Hn0), (falsy_bytes e He0). reflexivity.
Qed.

Theorem decode_raw_p256 x y : len x = 32 -> len y = 32 ->
  decode_credential_public_key (raw_p256 x y) = Ok (DEC2 (CInt (-7)) (CInt 1) (CBytes x) (CBytes y)).
Proof.
  intros Hx Hy. unfold raw_p256, decode_credential_public_key. cbn [app Z.eqb Pos.eqb].
  assert (A : ALG_ES256 = -7 /\ CRV_P256 = 1) by (vm_compute; split; reflexivity). destruct A as [-> ->].
  f_equal. f_equal.
  - f_equal. change (4 :: x ++ y) with ([4] ++ (x ++ y)).
    rewrite slice_shift by (change (len [4]) with 1; lia). change (len [4]) with 1.
    replace (1 - 1) with 0 by lia. replace (33 - 1) with 32 by lia. apply slice0_exact, Hx.
  - f_equal. change (4 :: x ++ y) with (([4] ++ x) ++ y).
    rewrite slice_shift by (rewrite ?len_app, ?Hx; change (len [4]) with 1; lia). rewrite len_app. change (len [4]) with 1.
    rewrite Hx. replace (33 - (1 + 32)) with 0 by lia. replace (65 - (1 + 32)) with 32 by lia.
    rewrite <- (app_nil_r y) at 1. apply slice0_exact, Hy.
Qed.

(* conversion to the abstract public key: exactly the encoded numbers (leading zero bytes included) *)
Theorem to_crypto_ec2 O alg c x y pk : to_crypto O (DEC2 (CInt alg) (CInt c) (CBytes x) (CBytes y)) = Ok pk ->
  exists crv, pk = PkEC crv (be_int x) (be_int y) /\ ((c = 1 /\ crv = 1) \/ (c = 2 /\ crv = 2) \/ (c = 3 /\ crv = 3)) /\ o_key_ok O pk = true.
Proof.
  cbn [to_crypto as_bytes bind]. unfold get_ec2_curve.
  assert (A : CRV_P256 = 1 /\ CRV_P384 = 2 /\ CRV_P521 = 3) by (vm_compute; repeat split). destruct A as (-> & -> & ->).
  cbn [cbor_eq_int].
  destruct (Z.eqb_spec c 1); [subst; cbn [bind]; intros H; apply bind_guard_ok in H as [G H]; injection H as <-; exists 1; auto|].
  destruct (Z.eqb_spec c 2); [subst; cbn [bind]; intros H; apply bind_guard_ok in H as [G H]; injection H as <-; exists 2; auto 6|].
  destruct (Z.eqb_spec c 3); [subst; cbn [bind]; intros H; apply bind_guard_ok in H as [G H]; injection H as <-; exists 3; auto 7|].
  discriminate.
Qed.

Theorem to_crypto_rsa O alg n e pk : to_crypto O (DRSA (CInt alg) (CBytes n) (CBytes e)) = Ok pk ->
  pk = PkRSA (be_int n) (be_int e) /\ o_key_ok O pk = true.
Proof.
  cbn [to_crypto as_bytes bind]. intros H. apply bind_guard_ok in H as [G H]. injection H as <-. auto.
Qed.

Theorem to_crypto_okp O alg c x pk : to_crypto O (DOKP (CInt alg) (CInt c) (CBytes x)) = Ok pk ->
  pk = PkEd x /\ alg = -8 /\ c = 6 /\ o_key_ok O pk = true.
Proof.
  cbn [to_crypto as_bytes bind]. intros H. apply bind_guard_ok in H as [G H].
  apply andb_true_iff in G as [G1 G2].
  assert (A : ALG_EDDSA = -8 /\ CRV_ED25519 = 6) by (vm_compute; split; reflexivity). destruct A as [A1 A2]. rewrite A1 in G1. rewrite A2 in G2.
  cbn in G1, G2. apply Z.eqb_eq in G1, G2. cbn [bind] in H. apply bind_guard_ok in H as [G H]. injection H as <-. auto.
Qed.
(* a COSE key is read through the labels of its type only: two encodings whose maps agree on kty, alg, crv / n, x / e, y decode to the same key -
   whatever else they carry (kid, key_ops with any content, Base IV, private labels), and in whatever order *)
Lemma decode_reads_its_labels_only : forall key key' m m',
  hd 0 key <> 4 -> hd 0 key' <> 4 -> key <> [] -> key' <> [] ->
  parse_cbor key = Ok (CMap m) -> parse_cbor key' = Ok (CMap m') ->
  (forall l, In l [L_KTY; L_ALG; L_CRV; L_X; L_Y; L_N; L_E] -> dict_get m' (CInt l) = dict_get m (CInt l)) ->
  decode_credential_public_key key' = decode_credential_public_key key.
Proof.
  intros key key' m m' H4 H4' Hn Hn' Hp Hp' Hag.
  assert (G : forall l, In l [L_KTY; L_ALG; L_CRV; L_X; L_Y; L_N; L_E] -> must_get m' l = must_get m l).
  { intros l Hl. unfold must_get. rewrite (Hag l Hl). reflexivity. }
  unfold decode_credential_public_key.
  destruct key as [|b0 k]; [congruence|]. destruct key' as [|b0' k']; [congruence|].
  cbn [hd] in H4, H4'.
  destruct (b0 =? 4) eqn:E; [apply Z.eqb_eq in E; congruence|].
  destruct (b0' =? 4) eqn:E'; [apply Z.eqb_eq in E'; congruence|].
  rewrite Hp, Hp'. cbn [bind].
  rewrite !G by (cbn [In]; tauto).
  reflexivity.
Qed.
