(* GENERATED ONCE by tools/gen_examples2.py from the ceremony simulator (static, committed). *)
From Coq Require Import ZArith List Bool String.
From PW Require Import Model.Base Model.SigTypes Model.Json Model.Base64 Model.Cbor Model.AuthData Model.Oracles Model.ClientData
  Model.CredJson Model.Cose Model.SigAlg Model.Formats Model.VerifyAuth Model.VerifyReg Spec.RegSpec Spec.FormatSpec
  Proofs.RegProofs Proofs.FormatProofs Proofs.FormatComplete Proofs.ExnProofs Proofs.ExnFormats.
Import ListNotations.
Open Scope Z_scope.

Definition px_cdj : bytes := [123; 34; 116; 121; 112; 101; 34; 58; 34; 119; 101; 98; 97; 117; 116; 104; 110; 46; 99; 114; 101; 97; 116; 101; 34; 44; 34; 99; 104; 97; 108; 108; 101; 110; 103; 101; 34; 58; 34; 66; 51; 74; 108; 90; 50; 108; 122; 100; 72; 74; 104; 100; 71; 108; 118; 98; 105; 49; 106; 97; 71; 70; 115; 98; 71; 86; 117; 90; 50; 85; 116; 77; 68; 69; 121; 77; 122; 81; 49; 78; 106; 99; 52; 79; 81; 34; 44; 34; 111; 114; 105; 103; 105; 110; 34; 58; 34; 104; 116; 116; 112; 115; 58; 47; 47; 101; 120; 97; 109; 112; 108; 101; 46; 99; 111; 109; 34; 125].
Definition px_ao : bytes := [163; 99; 102; 109; 116; 102; 112; 97; 99; 107; 101; 100; 103; 97; 116; 116; 83; 116; 109; 116; 162; 99; 97; 108; 103; 38; 99; 115; 105; 103; 88; 72; 48; 70; 2; 33; 0; 254; 165; 101; 142; 89; 252; 57; 136; 163; 79; 41; 100; 23; 2; 253; 131; 236; 114; 180; 27; 45; 145; 185; 175; 36; 58; 203; 254; 40; 95; 50; 20; 2; 33; 0; 138; 44; 181; 42; 91; 26; 101; 146; 69; 10; 234; 130; 156; 217; 34; 199; 75; 179; 15; 177; 55; 239; 214; 90; 28; 136; 164; 161; 40; 227; 149; 248; 104; 97; 117; 116; 104; 68; 97; 116; 97; 88; 149; 163; 121; 166; 246; 238; 175; 185; 165; 94; 55; 140; 17; 128; 52; 226; 117; 30; 104; 47; 171; 159; 45; 48; 171; 19; 210; 18; 85; 134; 206; 25; 71; 69; 0; 0; 0; 9; 0; 1; 2; 3; 4; 5; 6; 7; 8; 9; 10; 11; 12; 13; 14; 15; 0; 17; 114; 101; 103; 45; 99; 114; 101; 100; 101; 110; 116; 105; 97; 108; 45; 105; 100; 165; 1; 2; 3; 38; 32; 1; 33; 88; 32; 145; 113; 129; 57; 236; 139; 221; 14; 129; 254; 112; 66; 87; 199; 4; 242; 204; 164; 228; 34; 100; 181; 19; 125; 77; 50; 133; 194; 221; 94; 128; 22; 34; 88; 32; 54; 201; 248; 82; 13; 7; 47; 238; 145; 156; 229; 40; 220; 116; 166; 136; 125; 139; 218; 210; 126; 44; 250; 111; 201; 213; 79; 24; 76; 53; 238; 117].
Definition px_ad : bytes := [163; 121; 166; 246; 238; 175; 185; 165; 94; 55; 140; 17; 128; 52; 226; 117; 30; 104; 47; 171; 159; 45; 48; 171; 19; 210; 18; 85; 134; 206; 25; 71; 69; 0; 0; 0; 9; 0; 1; 2; 3; 4; 5; 6; 7; 8; 9; 10; 11; 12; 13; 14; 15; 0; 17; 114; 101; 103; 45; 99; 114; 101; 100; 101; 110; 116; 105; 97; 108; 45; 105; 100; 165; 1; 2; 3; 38; 32; 1; 33; 88; 32; 145; 113; 129; 57; 236; 139; 221; 14; 129; 254; 112; 66; 87; 199; 4; 242; 204; 164; 228; 34; 100; 181; 19; 125; 77; 50; 133; 194; 221; 94; 128; 22; 34; 88; 32; 54; 201; 248; 82; 13; 7; 47; 238; 145; 156; 229; 40; 220; 116; 166; 136; 125; 139; 218; 210; 126; 44; 250; 111; 201; 213; 79; 24; 76; 53; 238; 117].
Definition px_sig : bytes := [48; 70; 2; 33; 0; 254; 165; 101; 142; 89; 252; 57; 136; 163; 79; 41; 100; 23; 2; 253; 131; 236; 114; 180; 27; 45; 145; 185; 175; 36; 58; 203; 254; 40; 95; 50; 20; 2; 33; 0; 138; 44; 181; 42; 91; 26; 101; 146; 69; 10; 234; 130; 156; 217; 34; 199; 75; 179; 15; 177; 55; 239; 214; 90; 28; 136; 164; 161; 40; 227; 149; 248].
Definition px_key : bytes := [165; 1; 2; 3; 38; 32; 1; 33; 88; 32; 145; 113; 129; 57; 236; 139; 221; 14; 129; 254; 112; 66; 87; 199; 4; 242; 204; 164; 228; 34; 100; 181; 19; 125; 77; 50; 133; 194; 221; 94; 128; 22; 34; 88; 32; 54; 201; 248; 82; 13; 7; 47; 238; 145; 156; 229; 40; 220; 116; 166; 136; 125; 139; 218; 210; 126; 44; 250; 111; 201; 213; 79; 24; 76; 53; 238; 117].
Definition px_rp_utf8 : bytes := [101; 120; 97; 109; 112; 108; 101; 46; 99; 111; 109].
Definition px_h_rp : bytes := [163; 121; 166; 246; 238; 175; 185; 165; 94; 55; 140; 17; 128; 52; 226; 117; 30; 104; 47; 171; 159; 45; 48; 171; 19; 210; 18; 85; 134; 206; 25; 71].
Definition px_h_cd : bytes := [122; 185; 146; 80; 207; 231; 183; 92; 36; 90; 241; 100; 19; 26; 137; 211; 77; 207; 24; 228; 82; 105; 216; 234; 227; 224; 241; 165; 98; 151; 188; 7].
Definition px_pk : pubkey := PkEC 1 65785908649800517095211017891818758657162378991944195450793502075101850271766 24781743928698487436852760387411128154453971484061229887146031427174087913077.
Definition px_cd_json : json := (JObj [([116; 121; 112; 101], (JStr [119; 101; 98; 97; 117; 116; 104; 110; 46; 99; 114; 101; 97; 116; 101])); ([99; 104; 97; 108; 108; 101; 110; 103; 101], (JStr [66; 51; 74; 108; 90; 50; 108; 122; 100; 72; 74; 104; 100; 71; 108; 118; 98; 105; 49; 106; 97; 71; 70; 115; 98; 71; 86; 117; 90; 50; 85; 116; 77; 68; 69; 121; 77; 122; 81; 49; 78; 106; 99; 52; 79; 81])); ([111; 114; 105; 103; 105; 110], (JStr [104; 116; 116; 112; 115; 58; 47; 47; 101; 120; 97; 109; 112; 108; 101; 46; 99; 111; 109]))]).
Definition pk_eqb2 (a b : pubkey) : bool := match a, b with PkEC c x y, PkEC c' x' y' => (c =? c') && (x =? x') && (y =? y') | _, _ => false end.
Definition px_oracles : oracles := {|
  o_hash := fun h d => if bytes_eqb d px_rp_utf8 then px_h_rp else if bytes_eqb d px_cdj then px_h_cd else [];
  o_json_loads := fun is_text d => if negb is_text && bytes_eqb d px_cdj then JOk px_cd_json else JDecodeError;
  o_key_ok := fun k => pk_eqb2 k px_pk;
  o_verify := fun k sch s m => pk_eqb2 k px_pk && scheme_eqb sch (ECDSA SHA256) && bytes_eqb s px_sig && bytes_eqb m (px_ad ++ px_h_cd);
  o_spki := fun _ => []; o_cert := fun _ => None; o_chain := fun _ _ _ => ChainInvalid |}.
Definition px_policy : reg_policy := {| rp_challenge := [7; 114; 101; 103; 105; 115; 116; 114; 97; 116; 105; 111; 110; 45; 99; 104; 97; 108; 108; 101; 110; 103; 101; 45; 48; 49; 50; 51; 52; 53; 54; 55; 56; 57]; rp_rp_id := [101; 120; 97; 109; 112; 108; 101; 46; 99; 111; 109]; rp_origin := OSingle [104; 116; 116; 112; 115; 58; 47; 47; 101; 120; 97; 109; 112; 108; 101; 46; 99; 111; 109];
  rp_require_up := true; rp_require_uv := true; rp_algs := [-7; -8; -36; -37; -38; -39; -257; -258; -259]; rp_roots := [];
  rp_builtin_apple := []; rp_builtin_android_key := []; rp_builtin_safetynet := []; rp_now := 0 |}.
Definition px_cred : reg_cred := {| rcr_id := [99; 109; 86; 110; 76; 87; 78; 121; 90; 87; 82; 108; 98; 110; 82; 112; 89; 87; 119; 116; 97; 87; 81]; rcr_raw_id := [114; 101; 103; 45; 99; 114; 101; 100; 101; 110; 116; 105; 97; 108; 45; 105; 100]; rcr_type := public_key_s;
  rcr_client_data := px_cdj; rcr_att_obj := px_ao; rcr_transports := None; rcr_attachment := None |}.
Definition px_stmt : att_stmt := {| st_sig := Some (CBytes px_sig); st_x5c := None; st_response := None; st_alg := Some (CInt (-7)); st_ver := None; st_cert_info := None; st_pub_area := None |}.

Example packed_example_accepted : is_ok (verify_reg px_oracles px_policy (InRec px_cred)) = true.
Proof. vm_compute. reflexivity. Qed.
Example packed_example_fields : match verify_reg px_oracles px_policy (InRec px_cred) with
  | Ok r => vr_cred_id r = [114; 101; 103; 45; 99; 114; 101; 100; 101; 110; 116; 105; 97; 108; 45; 105; 100] /\ vr_count r = 9 /\ vr_fmt r = [112; 97; 99; 107; 101; 100] /\ vr_pubkey r = px_key /\ vr_uv r = true
  | Err _ => False end.
Proof. vm_compute. repeat split. Qed.
(* the statement verifier itself, and the declared rules it is characterised by *)
Example packed_example_statement : verify_packed px_oracles 0 px_stmt px_ad px_cdj px_key [] = Ok tt.
Proof. vm_compute. reflexivity. Qed.
Example packed_example_meets_the_rules : PackedOk px_oracles 0 px_stmt px_ad px_cdj px_key [].
Proof. apply verify_packed_sound. exact packed_example_statement. Qed.
(* one flipped bit in the signed authenticator data: the rules no longer hold, so (by the iff) the verifier refuses *)
Example packed_example_tampered_rejected : verify_packed px_oracles 0 px_stmt [162; 121; 166; 246; 238; 175; 185; 165; 94; 55; 140; 17; 128; 52; 226; 117; 30; 104; 47; 171; 159; 45; 48; 171; 19; 210; 18; 85; 134; 206; 25; 71; 69; 0; 0; 0; 9; 0; 1; 2; 3; 4; 5; 6; 7; 8; 9; 10; 11; 12; 13; 14; 15; 0; 17; 114; 101; 103; 45; 99; 114; 101; 100; 101; 110; 116; 105; 97; 108; 45; 105; 100; 165; 1; 2; 3; 38; 32; 1; 33; 88; 32; 145; 113; 129; 57; 236; 139; 221; 14; 129; 254; 112; 66; 87; 199; 4; 242; 204; 164; 228; 34; 100; 181; 19; 125; 77; 50; 133; 194; 221; 94; 128; 22; 34; 88; 32; 54; 201; 248; 82; 13; 7; 47; 238; 145; 156; 229; 40; 220; 116; 166; 136; 125; 139; 218; 210; 126; 44; 250; 111; 201; 213; 79; 24; 76; 53; 238; 117] px_cdj px_key [] = Err (Lib InvalidRegistrationResponse).
Proof. vm_compute. reflexivity. Qed.
(* the structural well-formedness hypotheses of C19's statement theorem are satisfiable by a real statement *)
Example packed_example_wf : packed_wf px_oracles 0 px_stmt px_key [].
Proof.
  constructor.
  - intros _. exists px_sig. reflexivity.
  - intros H. vm_compute in H. discriminate.
  - constructor.
    + vm_compute. exact I.
    + intros dk E. vm_compute in E. injection E as <-. vm_compute. exact I.
    + intros dk E. vm_compute in E. injection E as <-. split; eexists; reflexivity.
  - intros dk E. vm_compute in E. injection E as <-. vm_compute. exact I.
Qed.
