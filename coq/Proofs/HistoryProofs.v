(* History-level form of the replay half of C07: in ANY presentation history (any length, any
   interleaving of other assertions, replays and reorderings, any oracle behaviour) an assertion
   that was accepted with a non-zero counter is refused at every later presentation, provided the
   RP stores the reported counter after each success (the `rp_step` state machine). *)
From Coq Require Import ZArith List Bool Lia.
From PW Require Import Model.Base Model.AuthData Model.Oracles Model.CredJson Model.VerifyAuth Proofs.AuthProofs.
Import ListNotations.
Open Scope Z_scope.

(* the stored counter after presenting the whole of h, starting from s *)
Definition final (O : oracles) (P : auth_policy) (s : Z) (h : list (cred_in auth_cred)) : Z :=
  fold_left (rp_step O P) h s.

Lemma final_ge O P : forall h s, Forall cred_wf h -> s <= final O P s h.
Proof.
  unfold final. induction h as [|c h IH]; intros s Hwf; cbn [fold_left]; [lia|].
  inversion Hwf as [|? ? Hc Hh]; subst.
  pose proof (rp_step_ge O P s c Hc). specialize (IH (rp_step O P s c) Hh). lia.
Qed.

Lemma final_app O P h1 h2 s : final O P s (h1 ++ h2) = final O P (final O P s h1) h2.
Proof. unfold final. apply fold_left_app. Qed.

Lemma last_cons_default {A} : forall (l : list A) x d, last (x :: l) d = last l x.
Proof.
  induction l as [|y l IH]; intros x d; [reflexivity|].
  change (last (x :: y :: l) d) with (last (y :: l) d). rewrite (IH y d), (IH y x). reflexivity.
Qed.

(* `final` is the last element of the trace `run` that C07_monotone speaks about *)
Lemma final_last_run O P : forall h s, final O P s h = last (run O P s h) s.
Proof.
  unfold final. induction h as [|c h IH]; intros s; cbn [fold_left run]; [reflexivity|].
  rewrite IH. rewrite last_cons_default. reflexivity.
Qed.

(* accepted once with a non-zero counter => refused at every later point of every history *)
Theorem history_no_double_accept O P s h1 c h2 r :
  Forall cred_wf h1 -> cred_wf c -> Forall cred_wf h2 ->
  verify_auth O (with_count P (final O P s h1)) c = Ok r -> 0 < va_new_count r ->
  forall r', verify_auth O (with_count P (final O P s (h1 ++ c :: h2))) c = Ok r' -> False.
Proof.
  intros H1 Hc H2 Hacc Hpos r' Hagain.
  rewrite final_app in Hagain. unfold final at 1 in Hagain. cbn [fold_left] in Hagain.
  fold (final O P (rp_step O P (final O P s h1) c) h2) in Hagain.
  unfold rp_step in Hagain at 1. rewrite Hacc in Hagain.
  pose proof (final_ge O P h2 (va_new_count r) H2) as Hge.
  exact (no_replay O P c r _ _ Hc Hacc Hpos Hge r' Hagain).
Qed.

(* the state machine view of the same fact: the second presentation leaves the stored counter
   unchanged (a refusal), so a replay can never advance the RP state *)
Corollary replay_is_a_noop O P s h1 c h2 r :
  Forall cred_wf h1 -> cred_wf c -> Forall cred_wf h2 ->
  verify_auth O (with_count P (final O P s h1)) c = Ok r -> 0 < va_new_count r ->
  final O P s (h1 ++ c :: h2 ++ [c]) = final O P s (h1 ++ c :: h2).
Proof.
  intros H1 Hc H2 Hacc Hpos.
  replace (h1 ++ c :: h2 ++ [c]) with ((h1 ++ c :: h2) ++ [c]) by (rewrite <- app_assoc; reflexivity).
  rewrite (final_app O P (h1 ++ c :: h2) [c]). unfold final at 1. cbn [fold_left].
  unfold rp_step at 1.
  destruct (verify_auth O (with_count P (final O P s (h1 ++ c :: h2))) c) as [r'|e] eqn:E; [|reflexivity].
  exfalso. exact (history_no_double_accept O P s h1 c h2 r H1 Hc H2 Hacc Hpos r' E).
Qed.

(* the stored counter is always a 32-bit value once anything was accepted, and otherwise the initial one *)
Lemma rp_step_range O P s c : cred_wf c -> 0 <= s < 2 ^ 32 -> 0 <= rp_step O P s c < 2 ^ 32.
Proof.
  intros Hwf Hs. unfold rp_step. destruct (verify_auth O (with_count P s) c) as [r|e] eqn:E; [|exact Hs].
  apply auth_accept_counter in E as [_ H2]; [exact H2|exact Hwf].
Qed.

Theorem final_range O P : forall h s, Forall cred_wf h -> 0 <= s < 2 ^ 32 -> 0 <= final O P s h < 2 ^ 32.
Proof.
  unfold final. induction h as [|c h IH]; intros s Hwf Hs; cbn [fold_left]; [exact Hs|].
  inversion Hwf as [|? ? Hc Hh]; subst. apply IH; [exact Hh|]. apply rp_step_range; assumption.
Qed.

(* the counter is the big-endian reading of bytes 33..36: positional weights written out *)
Lemma be_int4 b0 b1 b2 b3 : be_int [b0; b1; b2; b3] = b0 * 2 ^ 24 + b1 * 2 ^ 16 + b2 * 2 ^ 8 + b3.
Proof. unfold be_int. cbn [be_int_acc]. lia. Qed.

Theorem counter_big_endian v ad b0 b1 b2 b3 : parse_auth_data v = Ok ad ->
  slice 33 37 v = [b0; b1; b2; b3] ->
  ad_count ad = b0 * 2 ^ 24 + b1 * 2 ^ 16 + b2 * 2 ^ 8 + b3.
Proof.
  intros H Hs. apply parse_auth_data_header in H as (_ & _ & _ & Hc). rewrite Hc, Hs. apply be_int4.
Qed.
