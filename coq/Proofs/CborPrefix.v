(* CBOR: the encoding is prefix-free for the decoder - no strict prefix of the encoding of a well-formed value
   decodes successfully, whatever the fuel.  Together with [cbor_dec_enc] this is what makes truncated
   authenticator data fail (C11). *)
From Coq Require Import ZArith List Bool Lia.
From PW Require Import Model.Base Model.Utf8 Model.Cbor Proofs.Tactics Proofs.CborProofs.
Import ListNotations.
Open Scope Z_scope.
Ltac Zify.zify_post_hook ::= Z.to_euclidean_division_equations.

(* ---------- one unfolding step, parameterised by the recursive call ---------- *)
Definition dec_step (g : bytes -> dres) (s : bytes) : dres :=
  match s with
  | [] => DErr
  | b :: r =>
      let mt := b / 32 in
      let ai := b mod 32 in
      if mt =? 7 then
        (if ai =? 20 then DOk (CBool false) r else if ai =? 21 then DOk (CBool true) r
         else if ai =? 22 then DOk CNull r else if ai =? 23 then DOk CUndef r
         else if ai =? 31 then DErr else DUnm)
      else if mt =? 6 then DUnm
      else
        match dec_arg ai r with
        | ArgErr => DErr
        | ArgIndef => if (mt =? 0) || (mt =? 1) then DErr else DUnm
        | ArgOk n r' =>
            if mt =? 0 then DOk (CInt n) r'
            else if mt =? 1 then DOk (CInt (-1 - n)) r'
            else if mt =? 2 then
              (if len r' <? n then DErr else DOk (CBytes (slice 0 n r')) (drop n r'))
            else if mt =? 3 then
              (if len r' <? n then DErr
               else if utf8_ok (slice 0 n r') then DOk (CText (slice 0 n r')) (drop n r') else DErr)
            else if mt =? 4 then
              (if len r' <? n then DErr
               else match dec_items g (Z.to_nat n) r' with
                    | LOk l r'' => DOk (CArr l) r''
                    | LErr => DErr | LUnm => DUnm
                    end)
            else
              (if len r' <? n then DErr
               else match dec_pairs g (Z.to_nat n) r' [] with
                    | LOk m r'' => DOk (CMap m) r''
                    | LErr => DErr | LUnm => DUnm
                    end)
        end
  end.

Lemma cbor_dec_S f s : cbor_dec (S f) s = dec_step (cbor_dec f) s.
Proof. reflexivity. Qed.

(* ---------- more fuel never changes a successful result ---------- *)
Definition below (g g' : bytes -> dres) : Prop := forall s v r, g s = DOk v r -> g' s = DOk v r.

Lemma dec_items_mono g g' : below g g' -> forall n s l r, dec_items g n s = LOk l r -> dec_items g' n s = LOk l r.
Proof.
  intros Hb. induction n as [|n IH]; intros s l r H; cbn [dec_items] in *; [exact H|].
  destruct (g s) as [v r1| |] eqn:E; try discriminate. rewrite (Hb _ _ _ E).
  destruct (dec_items g n r1) as [l1 r2| |] eqn:E2; try discriminate. rewrite (IH _ _ _ E2). exact H.
Qed.

Lemma dec_pairs_mono g g' : below g g' -> forall n s acc m r, dec_pairs g n s acc = LOk m r -> dec_pairs g' n s acc = LOk m r.
Proof.
  intros Hb. induction n as [|n IH]; intros s acc m r H; cbn [dec_pairs] in *; [exact H|].
  destruct (g s) as [k r1| |] eqn:E; try discriminate. rewrite (Hb _ _ _ E).
  destruct (g r1) as [v r2| |] eqn:E2; try discriminate. rewrite (Hb _ _ _ E2).
  destruct (key_ok k); [|discriminate]. apply IH, H.
Qed.

Lemma dec_step_mono g g' : below g g' -> below (dec_step g) (dec_step g').
Proof.
  intros Hb s v r H. unfold dec_step in *. destruct s as [|b t]; [discriminate|]. cbv zeta in *.
  destruct (b / 32 =? 7); [exact H|]. destruct (b / 32 =? 6); [exact H|].
  destruct (dec_arg (b mod 32) t) as [n r'| |]; try exact H.
  destruct (b / 32 =? 0); [exact H|]. destruct (b / 32 =? 1); [exact H|].
  destruct (b / 32 =? 2); [exact H|]. destruct (b / 32 =? 3); [exact H|].
  destruct (b / 32 =? 4).
  - destruct (len r' <? n); [exact H|].
    destruct (dec_items g (Z.to_nat n) r') as [l r''| |] eqn:E; try discriminate.
    rewrite (dec_items_mono g g' Hb _ _ _ _ E). exact H.
  - destruct (len r' <? n); [exact H|].
    destruct (dec_pairs g (Z.to_nat n) r' []) as [m r''| |] eqn:E; try discriminate.
    rewrite (dec_pairs_mono g g' Hb _ _ _ _ _ E). exact H.
Qed.

Lemma cbor_dec_mono1 f : below (cbor_dec f) (cbor_dec (S f)).
Proof.
  induction f as [|f IH].
  - intros s v r H. discriminate.
  - intros s v r H. rewrite cbor_dec_S in *. eapply dec_step_mono; [exact IH|exact H].
Qed.

Lemma cbor_dec_mono f f' : (f <= f')%nat -> below (cbor_dec f) (cbor_dec f').
Proof.
  induction 1 as [|f' Hle IH]; [intros s v r H; exact H|].
  intros s v r H. apply cbor_dec_mono1, IH, H.
Qed.

(* whatever the fuel, a successful decode of (encoding ++ rest) is the value and the rest *)
Lemma dec_enc_unique v rest f v' r' : wf v -> cbor_dec f (cbor_enc v ++ rest) = DOk v' r' -> v' = v /\ r' = rest.
Proof.
  intros W H.
  pose proof (cbor_dec_mono f (Nat.max f (S (depth v))) ltac:(lia) _ _ _ H) as H1.
  rewrite (cbor_dec_enc v W) in H1 by lia. injection H1 as -> ->. split; reflexivity.
Qed.

(* ---------- prefixes ---------- *)
Lemma prefix_split {A} (q t a b : list A) : q ++ t = a ++ b ->
  (exists t', t' <> [] /\ q ++ t' = a) \/ (exists q', q = a ++ q' /\ q' ++ t = b).
Proof.
  intros H. apply app_eq_app in H as [l [[H1 H2]|[H1 H2]]].
  - right. exists l. split; [exact H1|symmetry; exact H2].
  - destruct l as [|x l].
    + right. exists []. rewrite app_nil_r in *. cbn in H2. split; [symmetry; exact H1|exact H2].
    + left. exists (x :: l). split; [discriminate|symmetry; exact H1].
Qed.

Lemma strict_prefix_len {A} (q t a : list A) : t <> [] -> q ++ t = a -> len q < len a.
Proof. intros Ht <-. rewrite len_app. destruct t; [congruence|]. unfold len. cbn [length]. lia. Qed.

Definition not_ok (d : dres) : Prop := match d with DOk _ _ => False | _ => True end.
Definition not_lok {A} (d : lres A) : Prop := match d with LOk _ _ => False | _ => True end.

Lemma take_arg_short k r : len r < k -> take_arg k r = ArgErr.
Proof. intros H. unfold take_arg. replace (len r <? k) with true by lia. reflexivity. Qed.

Lemma dec_arg_err b r f : 0 <= b / 32 < 6 -> dec_arg (b mod 32) r = ArgErr -> cbor_dec (S f) (b :: r) = DErr.
Proof.
  intros Hmt Ha. cbn [cbor_dec]. cbv zeta. rewrite Ha.
  replace (b / 32 =? 7) with false by lia. replace (b / 32 =? 6) with false by lia. reflexivity.
Qed.

(* a strict prefix of a head is a decoding error *)
Lemma head_trunc mt n q t f : 0 <= mt < 6 -> 0 <= n < 2 ^ 64 -> t <> [] -> q ++ t = cbor_head mt n ->
  cbor_dec (S f) q = DErr.
Proof.
  intros Hmt Hn Ht H. destruct q as [|b q1]; [reflexivity|].
  unfold cbor_head in H.
  assert (Hk : forall k c, (k > 0)%nat -> b :: q1 ++ t = (mt * 32 + c) :: be_bytes k n -> 24 <= c < 28 ->
             (c = 24 -> k = 1%nat) -> (c = 25 -> k = 2%nat) -> (c = 26 -> k = 4%nat) -> (c = 27 -> k = 8%nat) ->
             cbor_dec (S f) (b :: q1) = DErr).
  { intros k c Hkpos E Hc C24 C25 C26 C27. injection E as Eb Eq.
    assert (L : len q1 < Z.of_nat k).
    { pose proof (strict_prefix_len q1 t _ Ht Eq) as L. unfold len in L at 2. rewrite be_bytes_length in L. exact L. }
    apply dec_arg_err; [subst b; lia|]. subst b.
    replace ((mt * 32 + c) mod 32) with c by lia. unfold dec_arg.
    replace (c <? 24) with false by lia.
    destruct (c =? 24) eqn:E24; [apply take_arg_short; specialize (C24 ltac:(lia)); lia|].
    destruct (c =? 25) eqn:E25; [apply take_arg_short; specialize (C25 ltac:(lia)); lia|].
    destruct (c =? 26) eqn:E26; [apply take_arg_short; specialize (C26 ltac:(lia)); lia|].
    destruct (c =? 27) eqn:E27; [apply take_arg_short; specialize (C27 ltac:(lia)); lia|]. lia. }
  destruct (n <? 24).
  { injection H as _ H2. destruct q1; [destruct t; [congruence|discriminate]|discriminate]. }
  destruct (n <? 256) eqn:E2.
  { apply (Hk 1%nat 24); try lia. cbn [app] in H. rewrite H. f_equal. unfold be_bytes. f_equal. lia. }
  destruct (n <? 65536). { apply (Hk 2%nat 25); try lia. exact H. }
  destruct (n <? 4294967296). { apply (Hk 4%nat 26); try lia. exact H. }
  apply (Hk 8%nat 27); try lia. exact H.
Qed.

(* ---------- items and pairs ---------- *)
Definition trunc_fails (f : nat) (x : cbor) : Prop :=
  wf x -> forall q t, t <> [] -> q ++ t = cbor_enc x -> not_ok (cbor_dec f q).

Lemma items_trunc f : forall l q t, Forall (trunc_fails f) l -> wf_list l -> t <> [] ->
  q ++ t = concat (map cbor_enc l) -> not_lok (dec_items (cbor_dec f) (length l) q).
Proof.
  induction l as [|x l IH]; intros q t HF W Ht H; cbn [map concat length dec_items] in *.
  - apply app_eq_nil in H as [_ ->]. congruence.
  - inversion HF as [|? ? Hx Hl]; subst. destruct W as [Wx Wl].
    apply prefix_split in H as [(t' & Ht' & E)|(q' & -> & E)].
    + specialize (Hx Wx q t' Ht' E). destruct (cbor_dec f q); cbn in *; tauto.
    + destruct (cbor_dec f (cbor_enc x ++ q')) as [v' r'| |] eqn:D; cbn; auto.
      apply dec_enc_unique in D as [-> ->]; [|exact Wx].
      specialize (IH q' t Hl Wl Ht E). destruct (dec_items (cbor_dec f) (length l) q'); cbn in *; tauto.
Qed.

Lemma wf_pairs_weaken m : forall acc, wf_pairs acc m -> Forall (fun kv => wf (fst kv) /\ wf (snd kv)) m.
Proof.
  induction m as [|[k x] m IH]; intros acc W; [constructor|].
  destruct W as (_ & _ & Wk & Wx & Wm). constructor; [split; assumption|]. eapply IH, Wm.
Qed.

Lemma pairs_trunc f : forall m acc q t,
  Forall (fun kv => trunc_fails f (fst kv) /\ trunc_fails f (snd kv)) m ->
  Forall (fun kv => wf (fst kv) /\ wf (snd kv)) m -> t <> [] ->
  q ++ t = concat (map (fun kv => cbor_enc (fst kv) ++ cbor_enc (snd kv)) m) ->
  not_lok (dec_pairs (cbor_dec f) (length m) q acc).
Proof.
  induction m as [|[k x] m IH]; intros acc q t HF W Ht H; cbn [map concat length dec_pairs fst snd] in *.
  - apply app_eq_nil in H as [_ ->]. congruence.
  - inversion HF as [|? ? [Hk Hx] Hm]; subst. inversion W as [|? ? [Wk Wx] Wm]; subst. cbn [fst snd] in *.
    rewrite <- app_assoc in H.
    apply prefix_split in H as [(t' & Ht' & E)|(q1 & -> & E)].
    { specialize (Hk Wk q t' Ht' E). destruct (cbor_dec f q); cbn in *; tauto. }
    destruct (cbor_dec f (cbor_enc k ++ q1)) as [v' r'| |] eqn:D; cbn; auto.
    apply dec_enc_unique in D as [-> ->]; [|exact Wk].
    apply prefix_split in E as [(t' & Ht' & E)|(q2 & -> & E)].
    { specialize (Hx Wx q1 t' Ht' E). destruct (cbor_dec f q1); cbn in *; tauto. }
    destruct (cbor_dec f (cbor_enc x ++ q2)) as [v' r'| |] eqn:D2; cbn; auto.
    apply dec_enc_unique in D2 as [-> ->]; [|exact Wx].
    destruct (key_ok k); cbn; auto.
    apply (IH _ q2 t Hm Wm Ht E).
Qed.

(* ---------- the theorem ---------- *)
Lemma single_trunc b q t f : t <> [] -> q ++ t = [b] -> not_ok (cbor_dec f q).
Proof.
  intros Ht H. destruct q as [|c q].
  - destruct f; cbn; exact I.
  - injection H as _ H. apply app_eq_nil in H as [_ ->]. congruence.
Qed.

Ltac head_case mt n body Hq :=
  apply prefix_split in Hq as [(t' & Ht' & E)|(q' & -> & E)];
  [ rewrite (head_trunc mt n _ t' _ ltac:(lia) ltac:(lia) Ht' E); exact I | ].

Theorem cbor_trunc : forall v fuel, trunc_fails fuel v.
Proof.
  apply (cbor_rect' (fun v => forall fuel, trunc_fails fuel v)); unfold trunc_fails.
  - (* int *)
    intros z [|f] W q t Ht H; [exact I|]. cbn [wf] in W. cbn [cbor_enc] in H.
    destruct (0 <=? z) eqn:Ez.
    + rewrite (head_trunc 0 z q t f ltac:(lia) ltac:(lia) Ht H). exact I.
    + rewrite (head_trunc 1 (-1 - z) q t f ltac:(lia) ltac:(lia) Ht H). exact I.
  - (* bytes *)
    intros b0 [|f] W q t Ht H; [exact I|]. cbn [wf] in W. cbn [cbor_enc] in H. pose proof (len_nonneg b0).
    head_case 2 (len b0) b0 H.
    destruct (dec_head 2 (len b0) q' ltac:(lia) ltac:(lia)) as (b & r & Eh & Hb & Ha).
    rewrite Eh. cbn [cbor_dec]. cbv zeta. rewrite Hb, Ha. cbn [Z.eqb Pos.eqb].
    pose proof (strict_prefix_len q' t b0 Ht E). replace (len q' <? len b0) with true by lia. exact I.
  - (* text *)
    intros b0 [|f] W q t Ht H; [exact I|]. cbn [wf] in W. destruct W as [W _]. cbn [cbor_enc] in H. pose proof (len_nonneg b0).
    head_case 3 (len b0) b0 H.
    destruct (dec_head 3 (len b0) q' ltac:(lia) ltac:(lia)) as (b & r & Eh & Hb & Ha).
    rewrite Eh. cbn [cbor_dec]. cbv zeta. rewrite Hb, Ha. cbn [Z.eqb Pos.eqb].
    pose proof (strict_prefix_len q' t b0 Ht E). replace (len q' <? len b0) with true by lia. exact I.
  - (* array *)
    intros l IH [|f] W q t Ht H; [exact I|]. apply wf_arr in W as [Wl Wi]. cbn [cbor_enc] in H. pose proof (len_nonneg l).
    head_case 4 (len l) l H.
    destruct (dec_head 4 (len l) q' ltac:(lia) ltac:(lia)) as (b & r & Eh & Hb & Ha).
    rewrite Eh. cbn [cbor_dec]. cbv zeta. rewrite Hb, Ha. cbn [Z.eqb Pos.eqb].
    destruct (len q' <? len l); [exact I|]. unfold len at 1. rewrite Nat2Z.id.
    assert (HF : Forall (trunc_fails f) l).
    { eapply Forall_impl; [|exact IH]. intros x Hx. exact (Hx f). }
    pose proof (items_trunc f l q' t HF Wi Ht E) as HI.
    destruct (dec_items (cbor_dec f) (length l) q'); cbn in *; tauto.
  - (* map *)
    intros m IH [|f] W q t Ht H; [exact I|]. apply wf_map in W as [Wl Wi]. cbn [cbor_enc] in H. pose proof (len_nonneg m).
    head_case 5 (len m) m H.
    destruct (dec_head 5 (len m) q' ltac:(lia) ltac:(lia)) as (b & r & Eh & Hb & Ha).
    rewrite Eh. cbn [cbor_dec]. cbv zeta. rewrite Hb, Ha. cbn [Z.eqb Pos.eqb].
    destruct (len q' <? len m); [exact I|]. unfold len at 1. rewrite Nat2Z.id.
    assert (HF : Forall (fun kv => trunc_fails f (fst kv) /\ trunc_fails f (snd kv)) m).
    { eapply Forall_impl; [|exact IH]. intros x [Hk Hx]. split; [exact (Hk f)|exact (Hx f)]. }
    pose proof (pairs_trunc f m [] q' t HF (wf_pairs_weaken m [] Wi) Ht E) as HI.
    destruct (dec_pairs (cbor_dec f) (length m) q' []); cbn in *; tauto.
  - intros [|] fuel _ q t Ht H; eapply single_trunc; eauto.
  - intros fuel _ q t Ht H; eapply single_trunc; eauto.
  - intros fuel _ q t Ht H; eapply single_trunc; eauto.
Qed.

(* as the library loads it: a truncated encoding never parses *)
Corollary parse_cbor_trunc v q t : wf v -> t <> [] -> q ++ t = cbor_enc v ->
  parse_cbor q = Err (Lib InvalidCBORData) \/ parse_cbor q = Err Unmodelled.
Proof.
  intros W Ht H. unfold parse_cbor, cbor_loads.
  pose proof (cbor_trunc v (Nat.min (S (length q)) max_depth) W q t Ht H) as N.
  destruct (cbor_dec _ q); cbn in N; tauto.
Qed.
