From Coq Require Import ZArith List Bool Lia.
From PW Require Import Model.Base Model.Utf8 Model.Cbor Model.AuthData Proofs.Tactics Proofs.CborProofs.
Import ListNotations.
Open Scope Z_scope.

Lemma parse_cbor_outcome s : match parse_cbor s with Ok _ | Err (Lib InvalidCBORData) | Err Unmodelled => True | _ => False end.
Proof. unfold parse_cbor. destruct (cbor_loads s); exact I. Qed.

(* no input makes the parser raise a non-library error (Unmodelled = outside the modelled CBOR subset) *)
Theorem parse_auth_data_total v :
  match parse_auth_data v with
  | Ok _ | Err (Lib InvalidAuthenticatorDataStructure) | Err (Lib InvalidCBORData) | Err Unmodelled => True
  | _ => False
  end.
Proof.
  unfold parse_auth_data. destruct (len v <? 37); [exact I|].
  destruct (flag (nth 32 v 0) 6); cbn [bind].
  - match goal with |- context [parse_cbor ?s] => pose proof (parse_cbor_outcome s) as H; destruct (parse_cbor s) as [k|e] end; cbn [bind].
    + destruct (flag (nth 32 v 0) 7); cbn [bind].
      * match goal with |- context [parse_cbor ?s] => pose proof (parse_cbor_outcome s) as H2; destruct (parse_cbor s) as [k2|e2] end; cbn [bind].
        -- match goal with |- context [if ?c then _ else _] => destruct c end; exact I.
        -- destruct e2 as [c| |]; try contradiction; [destruct c; try contradiction; exact I|exact I].
      * match goal with |- context [if ?c then _ else _] => destruct c end; exact I.
    + destruct e as [c| |]; try contradiction; [destruct c; try contradiction; exact I|exact I].
  - destruct (flag (nth 32 v 0) 7); cbn [bind].
    + match goal with |- context [parse_cbor ?s] => pose proof (parse_cbor_outcome s) as H2; destruct (parse_cbor s) as [k2|e2] end; cbn [bind].
      * match goal with |- context [if ?c then _ else _] => destruct c end; exact I.
      * destruct e2 as [c| |]; try contradiction; [destruct c; try contradiction; exact I|exact I].
    + match goal with |- context [if ?c then _ else _] => destruct c end; exact I.
Qed.

Theorem parse_auth_data_short v : len v < 37 -> parse_auth_data v = Err (Lib InvalidAuthenticatorDataStructure).
Proof. intros H. unfold parse_auth_data. replace (len v <? 37) with true by lia. reflexivity. Qed.

(* presence of attested data / extensions is exactly the AT / ED flag; a returned record is complete *)
Theorem parse_auth_data_presence v ad : parse_auth_data v = Ok ad ->
  (ad_att ad <> None <-> flag (nth 32 v 0) 6 = true) /\ (ad_ext ad <> None <-> flag (nth 32 v 0) 7 = true).
Proof.
  unfold parse_auth_data. destruct (len v <? 37); [discriminate|].
  intros H. apply bind_ok in H as [[[att v1] p1] [E1 H]].
  apply bind_ok in H as [[ext p2] [E2 H]].
  destruct (p2 <? len v1); [discriminate|]. injection H as <-. cbn [ad_att ad_ext].
  destruct (flag (nth 32 v 0) 6) eqn:F6; destruct (flag (nth 32 v 0) 7) eqn:F7.
  - apply bind_ok in E1 as [k [_ E1]]. injection E1 as <- _ _.
    apply bind_ok in E2 as [e [_ E2]]. injection E2 as <- _. split; split; intros; congruence.
  - apply bind_ok in E1 as [k [_ E1]]. injection E1 as <- _ _.
    injection E2 as <- _. split; split; intros; congruence.
  - injection E1 as <- _ _.
    apply bind_ok in E2 as [e [_ E2]]. injection E2 as <- _. split; split; intros; congruence.
  - injection E1 as <- _ _. injection E2 as <- _. split; split; intros; congruence.
Qed.
