(* C09: the scheme table the code implements (Generated.sig_table, exported behaviourally) is the
   table of the property text, for ALL integers alg. *)
From Coq Require Import ZArith List Bool Lia String.
From PW Require Import Model.Base Model.SigTypes Model.Cbor Model.Oracles Model.Cose Model.SigAlg
  Generated.Constants Spec.SigSpec Proofs.Tactics.
Import ListNotations.
Open Scope Z_scope.

Definition lib_eqb (a b : lib_exn) : bool :=
  match a, b with
  | UnsupportedAlgorithm, UnsupportedAlgorithm | UnsupportedPublicKey, UnsupportedPublicKey => true
  | _, _ => false
  end.
Definition sres_eqb (a b : scheme_res) : bool :=
  match a, b with
  | SchOk x, SchOk y => scheme_eqb x y
  | SchErr x, SchErr y => lib_eqb x y
  | _, _ => false
  end.

Lemma hash_eqb_eq a b : hash_eqb a b = true -> a = b.
Proof. destruct a, b; cbn; congruence. Qed.
Lemma scheme_eqb_eq a b : scheme_eqb a b = true -> a = b.
Proof. destruct a, b; cbn; try congruence; intros H; apply hash_eqb_eq in H; congruence. Qed.
Lemma sres_eqb_eq a b : sres_eqb a b = true -> a = b.
Proof.
  destruct a as [x|x], b as [y|y]; cbn; try discriminate.
  - intros H. apply scheme_eqb_eq in H. congruence.
  - destruct x, y; cbn; congruence.
Qed.
Lemma kind_eqb_eq a b : kind_eqb a b = true -> a = b.
Proof. destruct a, b; cbn; congruence. Qed.

(* what the property text demands of verify_signature, as a scheme_res.  For Ed25519 keys the code
   ignores the declared algorithm (the pairing alg = -8 is enforced one step earlier, in
   decoded_public_key_to_cryptography): the model-level table for KED is "always ED25519". *)
Definition spec_res (k : key_kind) (alg : Z) : scheme_res :=
  match k with
  | KED => SchOk ED25519
  | KOTHER => SchErr UnsupportedPublicKey
  | _ => match spec_scheme k alg with Some s => SchOk s | None => SchErr UnsupportedAlgorithm end
  end.

Lemma sig_lookup_some t k a r : sig_lookup t k a = Some r -> In ((k, a), r) t.
Proof.
  induction t as [|[[k' a'] r'] t IH]; cbn; [discriminate|].
  destruct (kind_eqb k' k && (a' =? a)) eqn:E.
  - intros [= <-]. apply andb_true_iff in E as [E1 E2]. apply kind_eqb_eq in E1. apply Z.eqb_eq in E2.
    subst. left. reflexivity.
  - intros H. right. apply IH. exact H.
Qed.

Lemma sig_lookup_none t k a : sig_lookup t k a = None -> forall r, ~ In ((k, a), r) t.
Proof.
  induction t as [|[[k' a'] r'] t IH]; cbn; [tauto|].
  destruct (kind_eqb k' k && (a' =? a)) eqn:E; [discriminate|].
  intros H r [Heq|Hin].
  - injection Heq as -> -> ->. destruct k; cbn in E; rewrite Z.eqb_refl in E; discriminate.
  - eapply IH; eauto.
Qed.

(* finite obligations on the generated table, decided by computation *)
Definition table_agrees : bool :=
  forallb (fun e => sres_eqb (snd e) (spec_res (fst (fst e)) (snd (fst e)))) sig_table.
Definition table_covers : bool :=
  forallb (fun k => forallb (fun a => match sig_lookup sig_table k a with Some _ => true | None => false end)
                           (spec_algs k)) [KEC; KRSA; KED; KOTHER].

Lemma table_agrees_ok : table_agrees = true.
Proof. vm_compute. reflexivity. Qed.
Lemma table_covers_ok : table_covers = true.
Proof. vm_compute. reflexivity. Qed.

Lemma spec_scheme_in k a s : spec_scheme k a = Some s -> In a (spec_algs k).
Proof.
  destruct k; cbn [spec_scheme spec_algs].
  - destruct (Z.eqb_spec a (-7)); [subst; cbn; auto|].
    destruct (Z.eqb_spec a (-36)); [subst; cbn; auto|discriminate].
  - destruct (Z.eqb_spec a (-257)); [subst; cbn; auto|].
    destruct (Z.eqb_spec a (-258)); [subst; cbn; auto|].
    destruct (Z.eqb_spec a (-259)); [subst; cbn; auto|].
    destruct (Z.eqb_spec a (-65535)); [subst; cbn; auto 6|].
    destruct (Z.eqb_spec a (-37)); [subst; cbn; auto 7|].
    destruct (Z.eqb_spec a (-38)); [subst; cbn; auto 8|].
    destruct (Z.eqb_spec a (-39)); [subst; cbn; auto 9|discriminate].
  - destruct (Z.eqb_spec a (-8)); [subst; cbn; auto|discriminate].
  - discriminate.
Qed.

Theorem scheme_table_correct : forall (k : key_kind) (alg : Z), scheme_of k alg = spec_res k alg.
Proof.
  intros k alg. unfold scheme_of.
  destruct (sig_lookup sig_table k alg) as [r|] eqn:E.
  - apply sig_lookup_some in E.
    pose proof table_agrees_ok as H. unfold table_agrees in H. rewrite forallb_forall in H.
    specialize (H _ E). cbn [fst snd] in H. apply sres_eqb_eq in H. exact H.
  - (* alg is not probed: the spec assigns it no scheme *)
    assert (Hn : k = KEC \/ k = KRSA -> spec_scheme k alg = None).
    { intros Hk. destruct (spec_scheme k alg) as [s|] eqn:Es; [|reflexivity].
      apply spec_scheme_in in Es.
      pose proof table_covers_ok as H. unfold table_covers in H. rewrite forallb_forall in H.
      assert (Hk' : In k [KEC; KRSA; KED; KOTHER]) by (destruct k; cbn; auto).
      specialize (H k Hk'). rewrite forallb_forall in H. specialize (H alg Es).
      rewrite E in H. discriminate. }
    destruct k; cbn [scheme_default spec_res]; try reflexivity.
    + rewrite Hn by auto. reflexivity.
    + rewrite Hn by auto. reflexivity.
Qed.

(* composed path of a COSE key: decode -> to_crypto -> verify_signature *)
Lemma to_crypto_kind O dk pk : to_crypto O dk = Ok pk ->
  match dk with
  | DEC2 _ _ _ _ => kind_of pk = KEC
  | DRSA _ _ _ => kind_of pk = KRSA
  | DOKP alg _ _ => kind_of pk = KED /\ cbor_eq_int alg ALG_EDDSA = true
  end.
Proof.
  destruct dk as [alg crv x|alg crv x y|alg n e]; cbn [to_crypto]; intros H.
  - inv_bind H. apply andb_true_iff in G as [G1 G2]. injection H as <-. split; [reflexivity|exact G1].
  - inv_bind H. injection H as <-. reflexivity.
  - inv_bind H. injection H as <-. reflexivity.
Qed.

Lemma cbor_eq_int_alg v n : cbor_eq_int v n = true -> alg_int v = Some n.
Proof.
  destruct v; cbn; try discriminate.
  - intros H. apply Z.eqb_eq in H. subst. reflexivity.
  - intros H. apply Z.eqb_eq in H. subst. reflexivity.
Qed.

Lemma ALG_EDDSA_val : ALG_EDDSA = -8.
Proof. vm_compute. reflexivity. Qed.

Theorem verify_signature_exact O dk pk sg msg :
  to_crypto O dk = Ok pk ->
  verify_signature O pk (dk_alg dk) sg msg = Ok true ->
  exists alg sch s, alg_int (dk_alg dk) = Some alg /\ spec_scheme (kind_of pk) alg = Some sch /\
                    sg = CBytes s /\ o_verify O pk sch s msg = true.
Proof.
  intros Hc Hv. apply to_crypto_kind in Hc.
  unfold verify_signature in Hv.
  destruct dk as [alg crv x|alg crv x y|alg n e]; cbn [dk_alg] in *.
  - destruct Hc as [Hk Ha]. apply cbor_eq_int_alg in Ha. rewrite Ha, Hk in *.
    rewrite scheme_table_correct in Hv. cbn [spec_res] in Hv.
    destruct sg as [| s | | | | | |]; try discriminate. injection Hv as Hv.
    exists ALG_EDDSA, ED25519, s. rewrite ALG_EDDSA_val. auto.
  - rewrite Hc in *. destruct (alg_int alg) as [z|] eqn:Ea.
    + rewrite scheme_table_correct in Hv. cbn [spec_res] in Hv.
      destruct (spec_scheme KEC z) as [sch|] eqn:Es; [|discriminate].
      destruct sg as [| s | | | | | |]; try discriminate. injection Hv as Hv.
      exists z, sch, s. auto.
    + cbn in Hv. discriminate.
  - rewrite Hc in *. destruct (alg_int alg) as [z|] eqn:Ea.
    + rewrite scheme_table_correct in Hv. cbn [spec_res] in Hv.
      destruct (spec_scheme KRSA z) as [sch|] eqn:Es; [|discriminate].
      destruct sg as [| s | | | | | |]; try discriminate. injection Hv as Hv.
      exists z, sch, s. auto.
    + cbn in Hv. discriminate.
Qed.

(* a declared algorithm to which the spec assigns no scheme for this key kind is refused with a
   library exception - never verified under some other scheme *)
Theorem verify_signature_unsupported O pk alg z sg msg :
  alg_int alg = Some z -> kind_of pk <> KED -> spec_scheme (kind_of pk) z = None ->
  exists c, verify_signature O pk alg sg msg = Err (Lib c).
Proof.
  intros Ha Hk Hs. unfold verify_signature. rewrite Ha, scheme_table_correct.
  destruct (kind_of pk) eqn:K; cbn [spec_res]; try rewrite Hs; eauto. congruence.
Qed.
