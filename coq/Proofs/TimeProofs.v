From Coq Require Import ZArith List Bool Lia ZifyBool.
From PW Require Import Model.Base Model.Oracles Model.Formats.
Open Scope Z_scope.
Ltac Zify.zify_post_hook ::= Z.to_euclidean_division_equations.

(* now = int(time.time()); T = the verifier's clock in milliseconds *)
Theorem timestamp_window now ts :
  timestamp_ok now ts = true <-> now * 1000 - 10000 <= ts <= now * 1000 + 10000.
Proof. unfold timestamp_ok. lia. Qed.

Theorem timestamp_accept_implies T ts : 0 <= T ->
  timestamp_ok (T / 1000) ts = true -> T - 11000 < ts <= T + 10000.
Proof. intros HT H. apply timestamp_window in H. lia. Qed.

Theorem timestamp_inside_accepted T ts : 0 <= T ->
  T - 10000 <= ts <= T + 9000 -> timestamp_ok (T / 1000) ts = true.
Proof. intros HT H. apply timestamp_window. lia. Qed.

Theorem timestamp_outside_rejected T ts : 0 <= T ->
  ts <= T - 11000 \/ T + 10000 < ts -> timestamp_ok (T / 1000) ts = false.
Proof.
  intros HT H. destruct (timestamp_ok (T / 1000) ts) eqn:E; [|reflexivity].
  apply timestamp_window in E. lia.
Qed.

(* the chain validator is handed the clock of THIS call: validate_chain is a function of (now, x5c, roots)
   only - the model threads no state between calls *)
Theorem validate_chain_uses_call_clock O now x5c roots :
  roots <> nil -> x5c <> nil ->
  validate_chain O now x5c roots = Ok tt -> o_chain O now x5c roots = ChainOk.
Proof.
  intros Hr Hx. unfold validate_chain. destruct roots as [|r0 roots]; [congruence|]. destruct x5c as [|c0 x5c]; [congruence|].
  destruct (o_chain O now (c0 :: x5c) (r0 :: roots)); congruence.
Qed.

(* ---- round 11: the window over time.  `now` is the whole-second clock of the call. ---- *)

(* whatever was accepted at clock `now` is refused at every clock 21 s or more later:
   verifying the same response again after the window has passed cannot succeed *)
Theorem timestamp_expires now ts : timestamp_ok now ts = true ->
  forall now', now + 21 <= now' -> timestamp_ok now' ts = false.
Proof.
  intros H now' Hn. apply timestamp_window in H.
  destruct (timestamp_ok now' ts) eqn:E; [|reflexivity]. apply timestamp_window in E. lia.
Qed.

(* once too old, too old for good (no later clock revives it) *)
Theorem timestamp_stays_expired now ts : ts < now * 1000 - 10000 ->
  forall now', now <= now' -> timestamp_ok now' ts = false.
Proof.
  intros H now' Hn. destruct (timestamp_ok now' ts) eqn:E; [|reflexivity]. apply timestamp_window in E. lia.
Qed.

(* the clocks that accept a given timestamp form one interval of at most 21 whole seconds *)
Theorem timestamp_clocks_convex n1 n2 n3 ts : n1 <= n2 <= n3 ->
  timestamp_ok n1 ts = true -> timestamp_ok n3 ts = true -> timestamp_ok n2 ts = true.
Proof. intros Hn H1 H3. apply timestamp_window in H1, H3. apply timestamp_window. lia. Qed.

Theorem timestamp_clocks_bounded n1 n2 ts :
  timestamp_ok n1 ts = true -> timestamp_ok n2 ts = true -> Z.abs (n2 - n1) <= 20.
Proof. intros H1 H2. apply timestamp_window in H1, H2. lia. Qed.
