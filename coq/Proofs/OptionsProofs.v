From Coq Require Import ZArith List Bool Lia String.
From PW Require Import Model.Base Model.Options Generated.Constants Proofs.Tactics.
Import ListNotations.
Open Scope Z_scope.

Definition defaulted {A} (o : option (list A)) : bool := match opt_nonempty o with Some _ => false | None => true end.
Definition b2n (b : bool) : nat := if b then 1%nat else 0%nat.

Section G.
  Variable draw : nat -> bytes.

  Theorem gen_reg_refuses a n : ra_rp_id a = [] \/ ra_rp_name a = [] \/ ra_user_name a = [] ->
    gen_reg draw a n = Err (Py ValueError).
  Proof.
    unfold gen_reg. intros [H|[H|H]]; rewrite H; cbn [is_nil].
    - reflexivity.
    - destruct (is_nil (ra_rp_id a)); reflexivity.
    - destruct (is_nil (ra_rp_id a)); [reflexivity|]. destruct (is_nil (ra_rp_name a)); reflexivity.
  Qed.

  Definition fix_sel (s : auth_sel) : auth_sel :=
    if match as_resident_key s with Some rk => str_eqb rk (s2l "required") | None => false end
    then {| as_attachment := as_attachment s; as_resident_key := as_resident_key s; as_require_rk := Some true; as_uv := as_uv s |}
    else s.

  Lemma fix_sel_spec s : let s' := fix_sel s in
    as_attachment s' = as_attachment s /\ as_resident_key s' = as_resident_key s /\ as_uv s' = as_uv s /\
    (as_resident_key s = Some (s2l "required") -> as_require_rk s' = Some true) /\
    (as_resident_key s <> Some (s2l "required") -> as_require_rk s' = as_require_rk s).
  Proof.
    unfold fix_sel. destruct (as_resident_key s) as [rk|] eqn:Erk.
    - destruct (str_eqb rk (s2l "required")) eqn:Er; cbn [as_attachment as_resident_key as_uv as_require_rk].
      + apply Tactics.str_eqb_eq in Er. subst rk. repeat split; auto. intros Hc. exfalso. apply Hc. reflexivity.
      + repeat split; auto. intros Hc. injection Hc as ->. rewrite Tactics.list_eqb_refl in Er. discriminate.
    - repeat split; auto. discriminate.
  Qed.

  Theorem gen_reg_spec a n o n' : gen_reg draw a n = Ok (o, n') ->
    ra_rp_id a <> [] /\ ra_rp_name a <> [] /\ ra_user_name a <> [] /\
    (* pass-through of everything supplied *)
    co_rp_id o = Some (ra_rp_id a) /\ co_rp_name o = ra_rp_name a /\ co_user_name o = ra_user_name a /\
    co_timeout o = Some (ra_timeout a) /\ co_attestation o = Some (ra_attestation a) /\ co_hints o = ra_hints a /\
    co_display_name o = match opt_nonempty (ra_display_name a) with Some d => d | None => ra_user_name a end /\
    co_params o = match opt_nonempty (ra_algs a) with Some l => params_of l | None => params_of default_algs_generator end /\
    co_exclude o = Some (match opt_nonempty (ra_exclude a) with Some l => l | None => [] end) /\
    (* entropy: exactly one 64-byte draw per defaulted value, user id first, in tape order *)
    n' = (n + b2n (defaulted (ra_user_id a)) + b2n (defaulted (ra_challenge a)))%nat /\
    co_user_id o = match opt_nonempty (ra_user_id a) with Some u => u | None => draw n end /\
    co_challenge o = match opt_nonempty (ra_challenge a) with Some c => c | None => draw (n + b2n (defaulted (ra_user_id a)))%nat end /\
    (* authenticator selection: attachment / residentKey / userVerification unchanged, residentKey rule *)
    co_auth_sel o = option_map fix_sel (ra_auth_sel a).
  Proof.
    unfold gen_reg, defaulted.
    destruct (ra_rp_id a) as [|r0 rid] eqn:E1; [discriminate|].
    destruct (ra_rp_name a) as [|r1 rn] eqn:E2; [discriminate|].
    destruct (ra_user_name a) as [|r2 un] eqn:E3; [discriminate|]. cbn [is_nil].
    destruct (opt_nonempty (ra_user_id a)) as [u|] eqn:Eu; destruct (opt_nonempty (ra_challenge a)) as [c|] eqn:Ec;
      intros H; injection H as <- <-; cbn [co_rp_id co_rp_name co_user_name co_timeout co_attestation co_hints co_display_name co_params co_exclude co_user_id co_challenge co_auth_sel b2n];
      (repeat split; try discriminate; try lia; try (f_equal; lia));
      (destruct (ra_auth_sel a) as [s|]; reflexivity).
  Qed.

  Theorem gen_auth_spec a n o n' : gen_auth draw a n = Ok (o, n') ->
    aa_rp_id a <> [] /\ ro_rp_id o = Some (aa_rp_id a) /\ ro_timeout o = Some (aa_timeout a) /\ ro_uv o = Some (aa_uv a) /\
    ro_allow o = Some (match opt_nonempty (aa_allow a) with Some l => l | None => [] end) /\
    n' = (n + b2n (defaulted (aa_challenge a)))%nat /\
    ro_challenge o = match opt_nonempty (aa_challenge a) with Some c => c | None => draw n end.
  Proof.
    unfold gen_auth, defaulted. destruct (aa_rp_id a) as [|r0 rid] eqn:E1; [discriminate|]. cbn [is_nil].
    destruct (opt_nonempty (aa_challenge a)) as [c|] eqn:Ec; intros H; injection H as <- <-; cbn; repeat split; try discriminate; lia.
  Qed.

  Theorem gen_auth_refuses a n : aa_rp_id a = [] -> gen_auth draw a n = Err (Py ValueError).
  Proof. unfold gen_auth. intros ->. reflexivity. Qed.

  (* ---- histories: any sequence of generator calls on one entropy tape ---- *)
  Inductive call := CReg (a : reg_args) | CAuth (a : auth_args).
  Definition draws_of (c : call) : nat :=
    match c with
    | CReg a => (b2n (defaulted (ra_user_id a)) + b2n (defaulted (ra_challenge a)))%nat
    | CAuth a => b2n (defaulted (aa_challenge a))
    end.
  Definition step (n : nat) (c : call) : nat :=
    match c with
    | CReg a => match gen_reg draw a n with Ok (_, n') => n' | Err _ => n end
    | CAuth a => match gen_auth draw a n with Ok (_, n') => n' | Err _ => n end
    end.
  Definition accepted (n : nat) (c : call) : bool :=
    match c with
    | CReg a => is_ok (gen_reg draw a n)
    | CAuth a => is_ok (gen_auth draw a n)
    end.

  Lemma step_count n c : step n c = (n + (if accepted n c then draws_of c else 0))%nat.
  Proof.
    destruct c as [a|a]; cbn [step accepted draws_of].
    - destruct (gen_reg draw a n) as [[o n']|e] eqn:E; cbn [is_ok]; [|lia].
      apply gen_reg_spec in E. decompose [and] E. lia.
    - destruct (gen_auth draw a n) as [[o n']|e] eqn:E; cbn [is_ok]; [|lia].
      apply gen_auth_spec in E. decompose [and] E. lia.
  Qed.

  (* the tape position only moves forward, by exactly the number of defaulted values of the accepted calls:
     no call ever re-reads a position, whatever preceded it *)
  Theorem history_positions : forall h n, (n <= fold_left step h n)%nat.
  Proof.
    induction h as [|c h IH]; intros n; cbn [fold_left]; [lia|].
    specialize (IH (step n c)). rewrite step_count in *. lia.
  Qed.

  (* hence, when distinct positions of the OS source hold distinct values, two defaulted challenges of one
     history never coincide: the i-th and j-th call read disjoint positions *)
  Theorem fresh_challenges (h1 h2 : list call) (a b : auth_args) n o1 o2 m1 m2 :
    (forall i j, draw i = draw j -> i = j) ->
    let p1 := fold_left step h1 n in
    let p2 := fold_left step h2 (step p1 (CAuth a)) in
    aa_challenge a = None -> aa_challenge b = None ->
    gen_auth draw a p1 = Ok (o1, m1) -> gen_auth draw b p2 = Ok (o2, m2) -> ro_challenge o1 <> ro_challenge o2.
  Proof.
    intros Hinj p1 p2 Ha Hb G1 G2.
    pose proof (gen_auth_spec _ _ _ _ G1) as S1. pose proof (gen_auth_spec _ _ _ _ G2) as S2.
    decompose [and] S1. decompose [and] S2. rewrite Ha in *. rewrite Hb in *. cbn [opt_nonempty] in *.
    match goal with A : ro_challenge o1 = _, B : ro_challenge o2 = _ |- _ => rewrite A, B end.
    intros E. apply Hinj in E.
    pose proof (history_positions h2 (step p1 (CAuth a))) as P. fold p2 in P.
    rewrite step_count in P. cbn [accepted draws_of] in P. rewrite G1 in P. cbn [is_ok] in P.
    unfold defaulted in P. rewrite Ha in P. cbn in P. lia.
  Qed.
End G.

Lemma default_algs_agree : default_algs_generator = default_algs_verifier /\ map snd default_params_offered = default_algs_verifier /\ default_params_generator = default_params_offered.
Proof. vm_compute. repeat split. Qed.
