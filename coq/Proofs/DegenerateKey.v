(* Finding F12 inside the model: the premise "one message per signature" of the C06 tamper theorems cannot be dropped.
   dk_oracles is ex_oracles with a verification oracle that IGNORES THE MESSAGE for the example key and the example signature -
   what RFC 8032 verification does for an Ed25519 public key of small order (the identity: S*B = R + h*A holds for R = identity,
   S = 0 whatever h = H(R, A, M) is).  Under it the example assertion is accepted, and so is the same assertion with one bit
   of its authenticator data changed (counter 77 -> 76 ... here 77 -> 79: bit 1 of the last byte). *)
From Coq Require Import ZArith List Bool.
From PW Require Import Model.Base Model.SigTypes Model.Oracles Model.CredJson Model.VerifyAuth Proofs.Examples.
Import ListNotations.
Open Scope Z_scope.

Definition dk_oracles : oracles := {|
  o_hash := o_hash ex_oracles; o_json_loads := o_json_loads ex_oracles; o_key_ok := o_key_ok ex_oracles;
  o_verify := fun k sch s m => pk_eqb k ex_pk && scheme_eqb sch (ECDSA SHA256) && bytes_eqb s ex_sig;
  o_spki := o_spki ex_oracles; o_cert := o_cert ex_oracles; o_chain := o_chain ex_oracles |}.

(* the last byte of the authenticator data (low byte of the signature counter) with bit 1 flipped: 77 = 0x4D -> 0x4F = 79 *)
Definition dk_ad : bytes := firstn 36 ex_ad ++ [79].
Definition dk_cred : auth_cred := {| acr_id := acr_id ex_cred; acr_raw_id := acr_raw_id ex_cred; acr_type := acr_type ex_cred;
  acr_client_data := acr_client_data ex_cred; acr_auth_data := dk_ad; acr_signature := acr_signature ex_cred;
  acr_user_handle := acr_user_handle ex_cred; acr_attachment := acr_attachment ex_cred |}.

Lemma dk_one_bit : length dk_ad = length ex_ad /\ firstn 36 dk_ad = firstn 36 ex_ad /\ nth 36 ex_ad 0 = 77 /\ nth 36 dk_ad 0 = 79 /\ Z.lxor 77 79 = 2.
Proof. vm_compute. repeat split. Qed.

Lemma dk_both_accepted : is_ok (verify_auth_rec dk_oracles ex_policy ex_cred) = true /\ is_ok (verify_auth_rec dk_oracles ex_policy dk_cred) = true.
Proof. vm_compute. split; reflexivity. Qed.

(* the unconditional reading of C06 ("for every accepted response, a changed bit is rejected") is false of the model as soon as the
   verification oracle is allowed to be what a degenerate key makes it *)
Lemma tamper_unconditional_refuted : exists O P c c' r r',
  verify_auth_rec O P c = Ok r /\ verify_auth_rec O P c' = Ok r' /\
  acr_signature c' = acr_signature c /\ acr_client_data c' = acr_client_data c /\ acr_auth_data c' <> acr_auth_data c /\
  length (acr_auth_data c') = length (acr_auth_data c).
Proof.
  destruct (verify_auth_rec dk_oracles ex_policy ex_cred) as [r|e] eqn:E1.
  2:{ exfalso. pose proof (proj1 dk_both_accepted) as H. rewrite E1 in H. discriminate. }
  destruct (verify_auth_rec dk_oracles ex_policy dk_cred) as [r'|e] eqn:E2.
  2:{ exfalso. pose proof (proj2 dk_both_accepted) as H. rewrite E2 in H. discriminate. }
  exists dk_oracles, ex_policy, ex_cred, dk_cred, r, r'. repeat split; try assumption; try reflexivity.
  intro H. assert (X : nth 36 (acr_auth_data dk_cred) 0 = nth 36 (acr_auth_data ex_cred) 0) by (rewrite H; reflexivity).
  vm_compute in X. discriminate.
Qed.

(* ... and the oracle violates exactly the premise the tamper theorems name *)
Lemma dk_oracle_breaks_the_premise : ~ (forall k sch s m m', o_verify dk_oracles k sch s m = true -> o_verify dk_oracles k sch s m' = true -> m = m').
Proof. intro H. specialize (H ex_pk (ECDSA SHA256) ex_sig [] [0] eq_refl eq_refl). discriminate. Qed.
