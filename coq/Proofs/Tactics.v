From Coq Require Import ZArith List Bool Lia.
From PW Require Import Model.Base.
Import ListNotations.
Open Scope Z_scope.

(* inversion of `bind r k = Ok x` *)
Lemma bind_ok {A B} (r : res A) (k : A -> res B) (b : B) :
  bind r k = Ok b -> exists a, r = Ok a /\ k a = Ok b.
Proof. destruct r as [a|e]; cbn; [eauto|discriminate]. Qed.

Lemma guard_ok c e : guard c e = Ok tt -> c = true.
Proof. unfold guard. destruct c; [reflexivity|discriminate]. Qed.

Lemma bind_guard_ok {B} c e (k : unit -> res B) b :
  bind (guard c e) k = Ok b -> c = true /\ k tt = Ok b.
Proof. unfold guard. destruct c; cbn; [auto|discriminate]. Qed.

Ltac inv_bind H :=
  repeat match type of H with
  | bind (guard _ _) _ = Ok _ =>
      let G := fresh "G" in apply bind_guard_ok in H as [G H]
  | bind _ _ = Ok _ =>
      let a := fresh "a" in let E := fresh "E" in apply bind_ok in H as [a [E H]]
  end.

Lemma list_eqb_Z_eq (a b : list Z) : list_eqb Z.eqb a b = true <-> a = b.
Proof.
  revert b. induction a as [|x a IH]; intros [|y b]; cbn; split; try discriminate; try reflexivity.
  - intros H. apply andb_true_iff in H as [H1 H2]. apply Z.eqb_eq in H1. apply IH in H2. subst. reflexivity.
  - intros [= -> ->]. rewrite Z.eqb_refl. cbn. apply IH. reflexivity.
Qed.
Lemma bytes_eqb_eq a b : bytes_eqb a b = true <-> a = b.
Proof. apply list_eqb_Z_eq. Qed.
Lemma str_eqb_eq a b : str_eqb a b = true <-> a = b.
Proof. apply list_eqb_Z_eq. Qed.
Lemma list_eqb_refl (a : list Z) : list_eqb Z.eqb a a = true.
Proof. apply list_eqb_Z_eq. reflexivity. Qed.

(* be_int range *)
Lemma be_int_acc_range l : forall acc, 0 <= acc -> bytes_ok l = true ->
  0 <= be_int_acc acc l < (acc + 1) * 256 ^ (Z.of_nat (length l)).
Proof.
  induction l as [|b l IH]; intros acc Hacc Hok.
  - cbn. lia.
  - cbn [bytes_ok forallb] in Hok. apply andb_true_iff in Hok as [Hb Hok].
    unfold byte_ok in Hb. apply andb_true_iff in Hb as [Hb1 Hb2].
    apply Z.leb_le in Hb1. apply Z.ltb_lt in Hb2.
    cbn [be_int_acc length]. specialize (IH (acc * 256 + b) ltac:(lia) Hok).
    rewrite Nat2Z.inj_succ, Z.pow_succ_r by lia.
    split; [lia|]. destruct IH as [_ IH].
    eapply Z.lt_le_trans; [exact IH|]. 
    assert (0 < 256 ^ Z.of_nat (length l)) by (apply Z.pow_pos_nonneg; lia). nia.
Qed.
Lemma be_int_range l : bytes_ok l = true -> 0 <= be_int l < 256 ^ (Z.of_nat (length l)).
Proof. intros H. pose proof (be_int_acc_range l 0 ltac:(lia) H). unfold be_int. lia. Qed.

Lemma In_firstn {A} n (l : list A) x : In x (firstn n l) -> In x l.
Proof.
  revert l. induction n as [|n IH]; intros [|y l]; cbn; try tauto.
  intros [->|H]; [left; reflexivity|right; apply IH; exact H].
Qed.
Lemma In_skipn {A} n (l : list A) x : In x (skipn n l) -> In x l.
Proof.
  revert l. induction n as [|n IH]; intros [|y l]; cbn; try tauto.
  intros H. right. apply IH. exact H.
Qed.
Lemma bytes_ok_firstn n l : bytes_ok l = true -> bytes_ok (firstn n l) = true.
Proof. unfold bytes_ok. rewrite !forallb_forall. intros H x Hx. apply H. eapply In_firstn. exact Hx. Qed.
Lemma bytes_ok_skipn n l : bytes_ok l = true -> bytes_ok (skipn n l) = true.
Proof. unfold bytes_ok. rewrite !forallb_forall. intros H x Hx. apply H. eapply In_skipn. exact Hx. Qed.
Lemma bytes_ok_slice a b l : bytes_ok l = true -> bytes_ok (slice a b l) = true.
Proof. intros H. unfold slice. apply bytes_ok_firstn, bytes_ok_skipn, H. Qed.
Lemma bytes_ok_app a b : bytes_ok (a ++ b) = bytes_ok a && bytes_ok b.
Proof. unfold bytes_ok. apply forallb_app. Qed.
Lemma length_slice_le {A} a b (l : list A) : (length (slice a b l) <= Z.to_nat (b - a))%nat.
Proof. unfold slice. rewrite firstn_length. lia. Qed.
