From Coq Require Import ZArith List Bool Lia.
From PW Require Import Model.Base Model.SigTypes Model.Json Model.Base64 Model.Utf8 Model.Cbor Model.AuthData
  Model.Oracles Model.ClientData Model.CredJson Model.Cose Model.SigAlg Model.VerifyAuth
  Generated.Constants Spec.SigSpec Spec.AuthSpec Proofs.Tactics Proofs.SigProofs Proofs.Base64Proofs.
Import ListNotations.
Open Scope Z_scope.

(* ---------- authenticator data: fixed header facts ---------- *)
Lemma parse_auth_data_header v ad : parse_auth_data v = Ok ad ->
  37 <= len v /\ ad_rp_hash ad = slice 0 32 v /\ ad_flags ad = nth 32 v 0 /\
  ad_count ad = be_int (slice 33 37 v).
Proof.
  unfold parse_auth_data. destruct (len v <? 37) eqn:L; [discriminate|].
  intros H. inv_bind H.
  destruct a as [[att v1] p1]. inv_bind H. destruct a as [ext p2].
  destruct (p2 <? len v1); [discriminate|]. injection H as <-. cbn. repeat split; lia.
Qed.

(* ---------- counter rule (C07) ---------- *)
Lemma counter_rule s c : 0 <= s -> 0 <= c ->
  (counter_ok s c = true <-> (c > s \/ (c = 0 /\ s = 0))).
Proof. unfold counter_ok. intros Hs Hc. split; intros H; lia. Qed.

Lemma counter_ok_ge s c : 0 <= c -> counter_ok s c = true -> s <= c.
Proof. unfold counter_ok. intros Hc H. lia. Qed.

(* ---------- soundness and completeness of verify_auth_rec w.r.t. the declarative predicate ---------- *)
Lemma jstr_is_eq j s : jstr_is j s = true <-> j = JStr s.
Proof.
  destruct j; cbn; split; try discriminate; try congruence.
  - intros H. apply str_eqb_eq in H. congruence.
  - intros [= ->]. apply list_eqb_refl.
Qed.

Lemma backup_flags_ok be bs p : parse_backup_flags be bs = Ok p -> (bs = true -> be = true) /\ p = (be, bs).
Proof.
  unfold parse_backup_flags. destruct be, bs; cbn; intros H; try discriminate; injection H as <-; auto.
Qed.

Theorem verify_auth_rec_sound O P c r :
  verify_auth_rec O P c = Ok r -> AuthAccepted O P c r.
Proof.
  unfold verify_auth_rec. intros H. inv_bind H.
  rename a into cd, a0 into ad, a1 into h, a2 into dk, a3 into pk, a4 into okv, a5 into bf.
  apply backup_flags_ok in E5 as [Hb ->]. injection H as <-.
  apply str_eqb_eq in G. apply str_eqb_eq in G0. apply jstr_is_eq in G1. apply bytes_eqb_eq in G2.
  apply bytes_eqb_eq in G5. subst okv.
  destruct (verify_signature_exact O dk pk _ _ E3 E4) as (alg & sch & s & Ha & Hs & Hsg & Hv).
  injection Hsg as <-.
  constructor.
  - symmetry. exact G.
  - exact G0.
  - exists cd. repeat split; auto.
  - exists ad, h. repeat split; auto.
    intros Huv. rewrite Huv in G7. cbn in G7. exact G7.
  - exists dk, pk, alg, sch. repeat split; auto.
Qed.

Theorem verify_auth_rec_complete O P c r :
  AuthAccepted O P c r -> verify_auth_rec O P c = Ok r.
Proof.
  intros [Hid Hty (cd & Hcd & Ht & Hch & Ho & Htb) (ad & h & Had & Hh & Hrp & Hup & Huv & Hcnt & Hbk & ->)
            (dk & pk & alg & sch & Hdk & Hpk & Ha & Hs & Hv)].
  unfold verify_auth_rec.
  rewrite Hid, list_eqb_refl. cbn [guard bind].
  rewrite Hty, list_eqb_refl. cbn [guard bind].
  rewrite Hcd. cbn [bind]. rewrite Ht. cbn [jstr_is]. rewrite list_eqb_refl. cbn [guard bind].
  rewrite Hch. unfold bytes_eqb. rewrite list_eqb_refl. cbn [guard bind].
  rewrite Ho. cbn [guard bind]. rewrite Htb. cbn [guard bind].
  rewrite Had. cbn [bind]. rewrite Hh. cbn [bind]. rewrite Hrp, list_eqb_refl. cbn [guard bind].
  rewrite Hup. cbn [guard bind].
  assert (Huv' : negb (ap_require_uv P) || f_uv ad = true).
  { destruct (ap_require_uv P); cbn; [apply Huv; reflexivity|reflexivity]. }
  rewrite Huv'. cbn [guard bind]. rewrite Hcnt. cbn [guard bind].
  rewrite Hdk. cbn [bind]. rewrite Hpk. cbn [bind].
  assert (Hvs : verify_signature O pk (dk_alg dk) (CBytes (acr_signature c))
                  (acr_auth_data c ++ sha256 O (acr_client_data c)) = Ok true).
  { unfold verify_signature. rewrite Ha, scheme_table_correct.
    destruct (kind_of pk) eqn:K; cbn [spec_res].
    - rewrite Hs. rewrite Hv. reflexivity.
    - rewrite Hs. rewrite Hv. reflexivity.
    - cbn [spec_scheme] in Hs. destruct (alg =? -8); [|discriminate]. injection Hs as <-. rewrite Hv. reflexivity.
    - cbn [spec_scheme] in Hs. discriminate. }
  rewrite Hvs. cbn [bind guard].
  unfold parse_backup_flags.
  destruct (f_be ad) eqn:Ebe, (f_bs ad) eqn:Ebs; cbn; try reflexivity.
  specialize (Hbk eq_refl). discriminate.
Qed.

Theorem verify_auth_rec_iff O P c r : verify_auth_rec O P c = Ok r <-> AuthAccepted O P c r.
Proof. split; [apply verify_auth_rec_sound|apply verify_auth_rec_complete]. Qed.

(* every accepted presentation went through the record form *)
Lemma verify_auth_via_rec O P c r : verify_auth O P c = Ok r ->
  exists rec, verify_auth_rec O P rec = Ok r /\
    match c with
    | InText s => parse_auth_cred_json O (inl s) = Ok rec
    | InDict j => parse_auth_cred_json O (inr j) = Ok rec
    | InRec r0 => rec = r0
    end.
Proof.
  unfold verify_auth. intros H. apply bind_ok in H as [rec [E H]]. exists rec. split; [exact H|].
  destruct c; [exact E|exact E|congruence].
Qed.

(* ---------- C07: accept => counter facts; histories ---------- *)
Lemma b64_dec_bytes_ok_aux : forall s qp lf pads out,
  (qp = 0 -> lf = 0) -> (qp = 1 -> 0 <= lf < 64) -> (qp = 2 -> 0 <= lf < 16) -> (qp = 3 -> 0 <= lf < 4) ->
  0 <= qp <= 3 ->
  a2b s qp lf pads = Some out -> bytes_ok out = true.
Proof.
  induction s as [|ch s IH]; intros qp lf pads out H0 H1 H2 H3 Hq; cbn [a2b].
  - destruct (qp =? 0); [intros [= <-]; reflexivity|discriminate].
  - destruct (ch =? 61).
    + destruct ((2 <=? qp) && (4 <=? qp + (pads + 1))); [intros [= <-]; reflexivity|].
      apply IH; assumption.
    + destruct (dec_char ch) as [v|] eqn:Ev; [|apply IH; assumption].
      apply dec_char_range in Ev.
      destruct (qp =? 0) eqn:Q0.
      { apply IH; try lia. }
      destruct (qp =? 1) eqn:Q1.
      { destruct (a2b s 2 (v mod 16) 0) as [t|] eqn:Et; cbn [option_map]; [|discriminate].
        intros [= <-]. cbn [bytes_ok forallb]. apply andb_true_iff. split.
        - unfold byte_ok. assert (0 <= lf < 64) by (apply H1; lia).
          pose proof (Z.div_pos v 16). pose proof (Z.div_lt_upper_bound v 16 4). lia.
        - eapply IH; [| | | | |exact Et]; lia. }
      destruct (qp =? 2) eqn:Q2.
      { destruct (a2b s 3 (v mod 4) 0) as [t|] eqn:Et; cbn [option_map]; [|discriminate].
        intros [= <-]. cbn [bytes_ok forallb]. apply andb_true_iff. split.
        - unfold byte_ok. assert (0 <= lf < 16) by (apply H2; lia).
          pose proof (Z.div_pos v 4). pose proof (Z.div_lt_upper_bound v 4 16). lia.
        - eapply IH; [| | | | |exact Et]; lia. }
      destruct (a2b s 0 0 0) as [t|] eqn:Et; cbn [option_map]; [|discriminate].
      intros [= <-]. cbn [bytes_ok forallb]. apply andb_true_iff. split.
      * unfold byte_ok. assert (0 <= lf < 4) by (apply H3; lia). lia.
      * eapply IH; [| | | | |exact Et]; lia.
Qed.

Lemma b64url_dec_bytes_ok s b : b64url_dec s = Ok b -> bytes_ok b = true.
Proof.
  unfold b64url_dec. destruct (is_ascii s); [|discriminate].
  destruct (a2b (s ++ [61; 61; 61]) 0 0 0) as [o|] eqn:E; [|discriminate].
  intros [= <-]. eapply b64_dec_bytes_ok_aux; [| | | | |exact E]; lia.
Qed.

Definition cred_wf (c : cred_in auth_cred) : Prop :=
  match c with InRec r => bytes_ok (acr_auth_data r) = true | _ => True end.

Lemma parsed_auth_data_ok O inp rec : parse_auth_cred_json O inp = Ok rec -> bytes_ok (acr_auth_data rec) = true.
Proof.
  unfold parse_auth_cred_json. intros H. inv_bind H.
  unfold wrap in H.
  match type of H with match ?X with _ => _ end = _ => destruct X as [rr|e] eqn:EX end.
  - injection H as <-. inv_bind EX. injection EX as <-. cbn.
    match goal with |- forallb byte_ok ?x = true =>
      match goal with Hd : b64url_dec _ = Ok x |- _ => exact (b64url_dec_bytes_ok _ _ Hd) end end.
  - destruct e; discriminate.
Qed.

Theorem auth_accept_counter O P c r : cred_wf c -> verify_auth O P c = Ok r ->
  counter_ok (ap_count P) (va_new_count r) = true /\ 0 <= va_new_count r < 2 ^ 32.
Proof.
  intros Hwf H. apply verify_auth_via_rec in H as (rec & H & Hc).
  assert (Hok : bytes_ok (acr_auth_data rec) = true).
  { destruct c; [eapply parsed_auth_data_ok; exact Hc|eapply parsed_auth_data_ok; exact Hc|subst; exact Hwf]. }
  apply verify_auth_rec_sound in H. destruct H as [_ _ _ (ad & h & Had & _ & _ & _ & _ & Hcnt & _ & ->) _].
  cbn [va_new_count]. split; [exact Hcnt|].
  apply parse_auth_data_header in Had as (_ & _ & _ & ->).
  pose proof (be_int_range _ (bytes_ok_slice 33 37 _ Hok)) as R.
  pose proof (length_slice_le 33 37 (acr_auth_data rec)) as L.
  split; [lia|]. eapply Z.lt_le_trans; [apply R|].
  change (2 ^ 32) with (256 ^ 4). apply Z.pow_le_mono_r; lia.
Qed.

(* the RP state machine: stored counter never decreases, along any history *)
Fixpoint run (O : oracles) (P : auth_policy) (s : Z) (h : list (cred_in auth_cred)) : list Z :=
  match h with [] => [] | c :: h' => let s' := rp_step O P s c in s' :: run O P s' h' end.

Lemma rp_step_ge O P s c : cred_wf c -> s <= rp_step O P s c.
Proof.
  intros Hwf. unfold rp_step. destruct (verify_auth O (with_count P s) c) as [r|e] eqn:E; [|lia].
  apply auth_accept_counter in E as [H1 H2]; [|exact Hwf]. cbn in H1.
  apply counter_ok_ge in H1; lia.
Qed.

Inductive nondecreasing : Z -> list Z -> Prop :=
| nd_nil s : nondecreasing s []
| nd_cons s x l : s <= x -> nondecreasing x l -> nondecreasing s (x :: l).

Theorem history_monotone O P : forall h s, Forall cred_wf h -> nondecreasing s (run O P s h).
Proof.
  induction h as [|c h IH]; intros s Hwf; cbn [run]; [constructor|].
  inversion Hwf as [|? ? Hc Hh]; subst. constructor; [apply rp_step_ge; exact Hc|apply IH; exact Hh].
Qed.

(* no assertion with a non-zero counter is accepted twice: once the stored counter has reached c,
   an assertion carrying c > 0 is refused, whatever happened in between *)
Lemma run_ge O P : forall h s, Forall cred_wf h -> forall x, In x (run O P s h) -> s <= x.
Proof.
  induction h as [|c h IH]; intros s Hwf x; cbn [run In]; [tauto|].
  inversion Hwf as [|? ? Hc Hh]; subst.
  intros [<-|Hin]; [apply rp_step_ge; exact Hc|].
  pose proof (rp_step_ge O P s c Hc). specialize (IH _ Hh x Hin). lia.
Qed.

Theorem no_replay O P c r s s' :
  cred_wf c -> verify_auth O (with_count P s) c = Ok r -> 0 < va_new_count r ->
  va_new_count r <= s' ->          (* any later stored value: it is >= the accepted counter *)
  forall r', verify_auth O (with_count P s') c = Ok r' -> False.
Proof.
  intros Hwf H1 Hpos Hle r' H2.
  apply verify_auth_via_rec in H1 as (rec1 & A1 & C1). apply verify_auth_via_rec in H2 as (rec2 & A2 & C2).
  assert (rec1 = rec2) by (destruct c; congruence). subst rec2.
  apply verify_auth_rec_sound in A1, A2.
  destruct A1 as [_ _ _ (ad1 & h1 & Had1 & _ & _ & _ & _ & _ & _ & ->) _].
  destruct A2 as [_ _ _ (ad2 & h2 & Had2 & _ & _ & _ & _ & Hc2 & _ & _) _].
  rewrite Had1 in Had2. injection Had2 as <-. cbn in *. unfold counter_ok in Hc2. lia.
Qed.

(* ---------- C10: flag bits ---------- *)
Definition byte_range : list Z := map Z.of_nat (seq 0 256).
Lemma in_byte_range f : 0 <= f < 256 -> In f byte_range.
Proof.
  intros H. unfold byte_range. replace f with (Z.of_nat (Z.to_nat f)) by lia.
  apply in_map, in_seq. lia.
Qed.
Lemma byte_sweep (p : Z -> bool) : forallb p byte_range = true -> forall f, 0 <= f < 256 -> p f = true.
Proof. intros H f Hf. rewrite forallb_forall in H. apply H, in_byte_range, Hf. Qed.

Theorem flag_bits : forall f, 0 <= f < 256 ->
  forall k, In k [0; 1; 2; 3; 4; 5; 6; 7] -> flag f k = Z.testbit f k.
Proof.
  intros f Hf k Hk.
  assert (H : forallb (fun f => forallb (fun k => Bool.eqb (flag f k) (Z.testbit f k)) [0; 1; 2; 3; 4; 5; 6; 7]) byte_range = true)
    by (vm_compute; reflexivity).
  pose proof (byte_sweep _ H f Hf) as H'. cbv beta in H'. rewrite forallb_forall in H'.
  apply eqb_prop, H', Hk.
Qed.

(* reserved bits 1 and 5 do not influence any flag the library reads *)
Theorem reserved_bits_ignored : forall f, 0 <= f < 256 ->
  forall k, In k [0; 2; 3; 4; 6; 7] ->
  flag (Z.lxor f 2) k = flag f k /\ flag (Z.lxor f 32) k = flag f k.
Proof.
  intros f Hf k Hk.
  assert (H : forallb (fun f => forallb (fun k => Bool.eqb (flag (Z.lxor f 2) k) (flag f k) && Bool.eqb (flag (Z.lxor f 32) k) (flag f k)) [0; 2; 3; 4; 6; 7]) byte_range = true)
    by (vm_compute; reflexivity).
  pose proof (byte_sweep _ H f Hf) as H'. cbv beta in H'. rewrite forallb_forall in H'.
  specialize (H' k Hk). apply andb_true_iff in H' as [A B]. split; apply eqb_prop; assumption.
Qed.

(* acceptance as a function of the flag byte, everything else held fixed (authentication) *)
Theorem auth_flag_table O P c r : verify_auth_rec O P c = Ok r ->
  let f := nth 32 (acr_auth_data c) 0 in
  flag f 0 = true /\ (ap_require_uv P = true -> flag f 2 = true) /\ (flag f 4 = true -> flag f 3 = true) /\
  va_uv r = flag f 2 /\ va_multi_device r = flag f 3 /\ va_backed_up r = flag f 4.
Proof.
  intros H. apply verify_auth_rec_sound in H.
  destruct H as [_ _ _ (ad & h & Had & _ & _ & Hup & Huv & _ & Hbk & ->) _].
  apply parse_auth_data_header in Had as (_ & _ & Hf & _).
  unfold f_up, f_uv, f_be, f_bs in *. rewrite Hf in *. cbn. repeat split; auto.
Qed.

(* ---------- C20: looser policy never rejects; input forms ---------- *)
Theorem auth_monotone O P P' c r : auth_looser P P' ->
  verify_auth_rec O P c = Ok r -> verify_auth_rec O P' c = Ok r.
Proof.
  intros [Lch Lrp Lk Lc Lo Luv] H. apply verify_auth_rec_iff in H. apply verify_auth_rec_iff.
  destruct H as [Hid Hty (cd & Hcd & Ht & Hch & Ho & Htb) (ad & h & Had & Hh & Hrp & Hup & Huv & Hcnt & Hbk & Hr)
                   (dk & pk & alg & sch & Hdk & Hpk & Ha & Hs & Hv)].
  constructor; auto.
  - exists cd. rewrite Lch. repeat split; auto.
  - exists ad, h. rewrite Lrp, Lc. repeat split; auto.
  - exists dk, pk, alg, sch. rewrite Lk. repeat split; auto.
Qed.

Theorem auth_monotone_any_form O P P' c r : auth_looser P P' ->
  verify_auth O P c = Ok r -> verify_auth O P' c = Ok r.
Proof.
  intros L H. unfold verify_auth in *. apply bind_ok in H as [rec [E H]]. rewrite E. cbn [bind].
  eapply auth_monotone; eauto.
Qed.

Lemma origin_single_many s : origin_looser (OSingle s) (OMany [s]).
Proof. intros o H. cbn in *. rewrite H. reflexivity. Qed.
Lemma origin_many_incl l l' : incl l l' -> origin_looser (OMany l) (OMany l').
Proof.
  intros Hi o H. cbn in *. apply existsb_exists in H as (s & Hin & Hs). apply existsb_exists.
  exists s. split; [apply Hi, Hin|exact Hs].
Qed.

Theorem auth_forms_text_dict O P s j : o_json_loads O true s = JOk j ->
  verify_auth O P (InText s) = verify_auth O P (InDict j).
Proof. intros H. unfold verify_auth, parse_auth_cred_json, load_obj. rewrite H. reflexivity. Qed.

Theorem auth_forms_dict_rec O P j rec : parse_auth_cred_json O (inr j) = Ok rec ->
  verify_auth O P (InDict j) = verify_auth O P (InRec rec).
Proof. intros H. unfold verify_auth. rewrite H. reflexivity. Qed.
