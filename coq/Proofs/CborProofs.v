(* CBOR: decoding the canonical encoding of any well-formed value gives the value back and leaves the
   rest untouched (no bound on size or depth). *)
From Coq Require Import ZArith List Bool Lia.
From PW Require Import Model.Base Model.Utf8 Model.Cbor Proofs.Tactics.
Import ListNotations.
Open Scope Z_scope.
Ltac Zify.zify_post_hook ::= Z.to_euclidean_division_equations.

(* ---------- big-endian helpers ---------- *)
Fixpoint be_go (k : nat) (n : Z) (acc : bytes) : bytes :=
  match k with O => acc | S k' => be_go k' (n / 256) (n mod 256 :: acc) end.
Lemma be_bytes_go k n : be_bytes k n = be_go k n [].
Proof. reflexivity. Qed.
Lemma be_go_acc k : forall n acc, be_go k n acc = be_go k n [] ++ acc.
Proof.
  induction k as [|k IH]; intros n acc; cbn [be_go]; [reflexivity|].
  rewrite (IH (n / 256) (n mod 256 :: acc)), (IH (n / 256) [n mod 256]). rewrite <- app_assoc. reflexivity.
Qed.
Lemma be_bytes_S k n : be_bytes (S k) n = be_bytes k (n / 256) ++ [n mod 256].
Proof. rewrite !be_bytes_go. cbn [be_go]. apply be_go_acc. Qed.
Lemma be_bytes_length k : forall n, length (be_bytes k n) = k.
Proof.
  induction k as [|k IH]; intros n; [reflexivity|].
  rewrite be_bytes_S, app_length, IH. cbn. lia.
Qed.
Lemma be_int_acc_app l : forall acc b, be_int_acc acc (l ++ [b]) = be_int_acc acc l * 256 + b.
Proof. induction l as [|x l IH]; intros acc b; cbn; [reflexivity|apply IH]. Qed.
Lemma be_int_snoc l b : be_int (l ++ [b]) = be_int l * 256 + b.
Proof. apply be_int_acc_app. Qed.
Lemma be_int_be_bytes k : forall n, 0 <= n < 256 ^ Z.of_nat k -> be_int (be_bytes k n) = n.
Proof.
  induction k as [|k IH]; intros n Hn.
  - cbn in *. lia.
  - rewrite be_bytes_S, be_int_snoc. rewrite Nat2Z.inj_succ, Z.pow_succ_r in Hn by lia.
    rewrite IH by lia. lia.
Qed.

Lemma slice0_app {A} (a b : list A) : slice 0 (len a) (a ++ b) = a.
Proof.
  unfold slice, len. cbn [Z.to_nat skipn]. rewrite Z.sub_0_r, Nat2Z.id.
  rewrite firstn_app, Nat.sub_diag, firstn_all. cbn. apply app_nil_r.
Qed.
Lemma drop_app {A} (a b : list A) : drop (len a) (a ++ b) = b.
Proof. unfold drop, len. rewrite Nat2Z.id. rewrite skipn_app, skipn_all, Nat.sub_diag. reflexivity. Qed.
Lemma len_app {A} (a b : list A) : len (a ++ b) = len a + len b.
Proof. unfold len. rewrite app_length. lia. Qed.
Lemma len_nonneg {A} (a : list A) : 0 <= len a.
Proof. unfold len. lia. Qed.

Lemma take_arg_be k n r : 0 <= n < 256 ^ Z.of_nat k ->
  take_arg (Z.of_nat k) (be_bytes k n ++ r) = ArgOk n r.
Proof.
  intros Hn. unfold take_arg.
  assert (L : len (be_bytes k n) = Z.of_nat k) by (unfold len; rewrite be_bytes_length; reflexivity).
  rewrite len_app, L. pose proof (len_nonneg r).
  replace (Z.of_nat k + len r <? Z.of_nat k) with false by lia.
  rewrite <- L at 1. rewrite slice0_app. rewrite <- L. rewrite drop_app.
  rewrite be_int_be_bytes by exact Hn. reflexivity.
Qed.

(* ---------- the head ---------- *)
Lemma dec_head mt n r : 0 <= mt < 8 -> 0 <= n < 2 ^ 64 ->
  exists b t, cbor_head mt n ++ r = b :: t /\ b / 32 = mt /\ dec_arg (b mod 32) t = ArgOk n r.
Proof.
  intros Hmt Hn. unfold cbor_head.
  destruct (n <? 24) eqn:E1.
  { exists (mt * 32 + n), r. repeat split; [lia|].
    replace ((mt * 32 + n) mod 32) with n by lia. unfold dec_arg. rewrite E1. reflexivity. }
  destruct (n <? 256) eqn:E2.
  { exists (mt * 32 + 24), (n :: r). repeat split; [lia|].
    replace ((mt * 32 + 24) mod 32) with 24 by lia. unfold dec_arg. cbn [Z.ltb Z.compare Z.eqb Pos.compare Pos.compare_cont Pos.eqb].
    assert (Hb : be_bytes 1 n = [n]) by (unfold be_bytes; f_equal; lia).
    change (n :: r) with ([n] ++ r). rewrite <- Hb.
    apply (take_arg_be 1 n r). cbn. lia. }
  destruct (n <? 65536) eqn:E3.
  { exists (mt * 32 + 25), (be_bytes 2 n ++ r). repeat split; [lia|].
    replace ((mt * 32 + 25) mod 32) with 25 by lia. unfold dec_arg. cbn [Z.ltb Z.compare Z.eqb Pos.compare Pos.compare_cont Pos.eqb].
    apply (take_arg_be 2 n r). cbn. lia. }
  destruct (n <? 4294967296) eqn:E4.
  { exists (mt * 32 + 26), (be_bytes 4 n ++ r). repeat split; [lia|].
    replace ((mt * 32 + 26) mod 32) with 26 by lia. unfold dec_arg. cbn [Z.ltb Z.compare Z.eqb Pos.compare Pos.compare_cont Pos.eqb].
    apply (take_arg_be 4 n r). cbn. lia. }
  exists (mt * 32 + 27), (be_bytes 8 n ++ r). repeat split; [lia|].
  replace ((mt * 32 + 27) mod 32) with 27 by lia. unfold dec_arg. cbn [Z.ltb Z.compare Z.eqb Pos.compare Pos.compare_cont Pos.eqb].
  apply (take_arg_be 8 n r). change (256 ^ Z.of_nat 8) with (2 ^ 64). lia.
Qed.

(* ---------- well-formed values ---------- *)
Fixpoint wf (v : cbor) : Prop :=
  match v with
  | CInt z => - 2 ^ 64 <= z < 2 ^ 64
  | CBytes b => len b < 2 ^ 64
  | CText b => len b < 2 ^ 64 /\ utf8_ok b = true
  | CArr l => len l < 2 ^ 64 /\ (fix all (l : list cbor) : Prop := match l with [] => True | x :: r => wf x /\ all r end) l
  | CMap m => len m < 2 ^ 64 /\
      (fix all (acc : list cbor) (m : list (cbor * cbor)) : Prop :=
         match m with
         | [] => True
         | (k, x) :: r => key_ok k = true /\ forallb (fun k' => negb (key_eqb k' k)) acc = true /\
                          wf k /\ wf x /\ all (acc ++ [k]) r
         end) [] m
  | _ => True
  end.

Fixpoint wf_list (l : list cbor) : Prop := match l with [] => True | x :: r => wf x /\ wf_list r end.
Fixpoint wf_pairs (acc : list cbor) (m : list (cbor * cbor)) : Prop :=
  match m with
  | [] => True
  | (k, x) :: r => key_ok k = true /\ forallb (fun k' => negb (key_eqb k' k)) acc = true /\
                   wf k /\ wf x /\ wf_pairs (acc ++ [k]) r
  end.
Lemma wf_arr l : wf (CArr l) <-> len l < 2 ^ 64 /\ wf_list l.
Proof. cbn [wf]. split; intros [A B]; split; auto; clear A; induction l; cbn in *; tauto. Qed.
Lemma wf_map_aux m : forall acc,
  (fix all (acc : list cbor) (m : list (cbor * cbor)) : Prop :=
         match m with
         | [] => True
         | (k, x) :: r => key_ok k = true /\ forallb (fun k' => negb (key_eqb k' k)) acc = true /\
                          wf k /\ wf x /\ all (acc ++ [k]) r
         end) acc m <-> wf_pairs acc m.
Proof. induction m as [|[k x] m IH]; intros acc; cbn; [tauto|]. rewrite IH. tauto. Qed.
Lemma wf_map m : wf (CMap m) <-> len m < 2 ^ 64 /\ wf_pairs [] m.
Proof. cbn [wf]. rewrite wf_map_aux. tauto. Qed.

(* nesting depth *)
Fixpoint depth (v : cbor) : nat :=
  match v with
  | CArr l => S (fold_right (fun x d => Nat.max (depth x) d) O l)
  | CMap m => S (fold_right (fun kv d => Nat.max (Nat.max (depth (fst kv)) (depth (snd kv))) d) O m)
  | _ => O
  end.

(* nested induction principle *)
Section Ind.
  Variable P : cbor -> Prop.
  Hypothesis Hint : forall z, P (CInt z).
  Hypothesis Hbytes : forall b, P (CBytes b).
  Hypothesis Htext : forall b, P (CText b).
  Hypothesis Harr : forall l, Forall P l -> P (CArr l).
  Hypothesis Hmap : forall m, Forall (fun kv => P (fst kv) /\ P (snd kv)) m -> P (CMap m).
  Hypothesis Hbool : forall b, P (CBool b).
  Hypothesis Hnull : P CNull.
  Hypothesis Hundef : P CUndef.
  Fixpoint cbor_rect' (v : cbor) : P v :=
    match v with
    | CInt z => Hint z | CBytes b => Hbytes b | CText b => Htext b
    | CArr l => Harr l ((fix go (l : list cbor) : Forall P l :=
                           match l with [] => Forall_nil _ | x :: r => Forall_cons _ (cbor_rect' x) (go r) end) l)
    | CMap m => Hmap m ((fix go (m : list (cbor * cbor)) : Forall (fun kv => P (fst kv) /\ P (snd kv)) m :=
                           match m with
                           | [] => Forall_nil _
                           | kv :: r => Forall_cons _ (conj (cbor_rect' (fst kv)) (cbor_rect' (snd kv))) (go r)
                           end) m)
    | CBool b => Hbool b | CNull => Hnull | CUndef => Hundef
    end.
End Ind.

(* ---------- dict_set on fresh keys appends ---------- *)
Lemma dict_set_fresh acc k v :
  forallb (fun kv => negb (key_eqb (fst kv) k)) acc = true -> dict_set acc k v = acc ++ [(k, v)].
Proof.
  induction acc as [|[k' v'] acc IH]; cbn; [reflexivity|].
  intros H. apply andb_true_iff in H as [H1 H2]. apply negb_true_iff in H1. rewrite H1. rewrite IH by exact H2. reflexivity.
Qed.

(* ---------- main theorem ---------- *)
Definition dec_ok (v : cbor) : Prop :=
  wf v -> forall fuel rest, (depth v < fuel)%nat -> cbor_dec fuel (cbor_enc v ++ rest) = DOk v rest.

Lemma dec_items_ok f : forall l rest,
  Forall (fun v => wf v -> forall rest, cbor_dec f (cbor_enc v ++ rest) = DOk v rest) l ->
  wf_list l -> dec_items (cbor_dec f) (length l) (concat (map cbor_enc l) ++ rest) = LOk l rest.
Proof.
  induction l as [|x l IH]; intros rest HF Hwf; cbn [length dec_items map concat app]; [reflexivity|].
  inversion HF as [|? ? Hx Hl]; subst. destruct Hwf as [Wx Wl].
  rewrite <- app_assoc. rewrite (Hx Wx). rewrite (IH rest Hl Wl). reflexivity.
Qed.

Lemma dec_pairs_ok f : forall m acc rest,
  Forall (fun kv => (wf (fst kv) -> forall rest, cbor_dec f (cbor_enc (fst kv) ++ rest) = DOk (fst kv) rest) /\
                    (wf (snd kv) -> forall rest, cbor_dec f (cbor_enc (snd kv) ++ rest) = DOk (snd kv) rest)) m ->
  wf_pairs (map fst acc) m ->
  dec_pairs (cbor_dec f) (length m)
    (concat (map (fun kv => cbor_enc (fst kv) ++ cbor_enc (snd kv)) m) ++ rest) acc = LOk (acc ++ m) rest.
Proof.
  induction m as [|[k x] m IH]; intros acc rest HF Hwf; cbn [length dec_pairs map concat app fst snd].
  - rewrite app_nil_r. reflexivity.
  - inversion HF as [|? ? [Hk Hx] Hm]; subst. cbn [fst snd] in *.
    destruct Hwf as (Kok & Hfresh & Wk & Wx & Wm).
    rewrite <- !app_assoc. rewrite (Hk Wk). rewrite (Hx Wx). rewrite Kok.
    assert (Hf2 : forallb (fun kv => negb (key_eqb (fst kv) k)) acc = true).
    { clear -Hfresh. induction acc as [|[a b] acc IH]; cbn in *; [reflexivity|].
      apply andb_true_iff in Hfresh as [A B]. rewrite A. cbn. apply IH, B. }
    rewrite (dict_set_fresh acc k x Hf2).
    rewrite (IH (acc ++ [(k, x)]) rest Hm).
    + rewrite <- app_assoc. reflexivity.
    + rewrite map_app. cbn. exact Wm.
Qed.

Lemma max_lt_l a b c : (Nat.max a b < c -> a < c)%nat. Proof. lia. Qed.
Lemma max_lt_r a b c : (Nat.max a b < c -> b < c)%nat. Proof. lia. Qed.

Lemma head_dec mt n rest f (k : Z -> bytes -> dres) :
  0 <= mt < 6 -> 0 <= n < 2 ^ 64 ->
  (forall b t, cbor_head mt n ++ rest = b :: t -> b / 32 = mt -> dec_arg (b mod 32) t = ArgOk n rest ->
     cbor_dec (S f) (b :: t) = k n rest) ->
  cbor_dec (S f) (cbor_head mt n ++ rest) = k n rest.
Proof.
  intros Hmt Hn H. destruct (dec_head mt n rest ltac:(lia) Hn) as (b & t & E & Hb & Ha).
  rewrite E. apply H; assumption.
Qed.

Theorem cbor_dec_enc : forall v, dec_ok v.
Proof.
  apply cbor_rect'; unfold dec_ok.
  - (* int *)
    intros z Hwf fuel rest Hf. destruct fuel as [|f]; [lia|]. cbn [wf] in Hwf. cbn [cbor_enc].
    destruct (0 <=? z) eqn:Ez.
    + destruct (dec_head 0 z rest ltac:(lia) ltac:(lia)) as (b & t & E & Hb & Ha).
      rewrite E. cbn [cbor_dec]. rewrite Hb. cbn [Z.eqb]. rewrite Ha. reflexivity.
    + destruct (dec_head 1 (-1 - z) rest ltac:(lia) ltac:(lia)) as (b & t & E & Hb & Ha).
      rewrite E. cbn [cbor_dec]. rewrite Hb. cbn [Z.eqb Pos.eqb]. rewrite Ha. cbn [Z.eqb Pos.eqb].
      f_equal. f_equal. lia.
  - (* bytes *)
    intros b0 Hwf fuel rest Hf. destruct fuel as [|f]; [lia|]. cbn [wf] in Hwf. cbn [cbor_enc].
    pose proof (len_nonneg b0). rewrite <- app_assoc.
    destruct (dec_head 2 (len b0) (b0 ++ rest) ltac:(lia) ltac:(lia)) as (b & t & E & Hb & Ha).
    rewrite E. cbn [cbor_dec]. rewrite Hb. cbn [Z.eqb Pos.eqb]. rewrite Ha. cbn [Z.eqb Pos.eqb].
    rewrite len_app. pose proof (len_nonneg rest).
    replace (len b0 + len rest <? len b0) with false by lia.
    rewrite slice0_app, drop_app. reflexivity.
  - (* text *)
    intros b0 Hwf fuel rest Hf. destruct fuel as [|f]; [lia|]. cbn [wf] in Hwf. destruct Hwf as [Hl Hu]. cbn [cbor_enc].
    pose proof (len_nonneg b0). rewrite <- app_assoc.
    destruct (dec_head 3 (len b0) (b0 ++ rest) ltac:(lia) ltac:(lia)) as (b & t & E & Hb & Ha).
    rewrite E. cbn [cbor_dec]. rewrite Hb. cbn [Z.eqb Pos.eqb]. rewrite Ha. cbn [Z.eqb Pos.eqb].
    rewrite len_app. pose proof (len_nonneg rest).
    replace (len b0 + len rest <? len b0) with false by lia.
    rewrite slice0_app, drop_app, Hu. reflexivity.
  - (* array *)
    intros l IH Hwf fuel rest Hf. destruct fuel as [|f]; [lia|]. apply wf_arr in Hwf as [Hl Wl]. cbn [cbor_enc].
    pose proof (len_nonneg l). rewrite <- app_assoc.
    destruct (dec_head 4 (len l) (concat (map cbor_enc l) ++ rest) ltac:(lia) ltac:(lia)) as (b & t & E & Hb & Ha).
    rewrite E. cbn [cbor_dec]. rewrite Hb. cbn [Z.eqb Pos.eqb]. rewrite Ha. cbn [Z.eqb Pos.eqb].
    assert (Hlen : len (concat (map cbor_enc l) ++ rest) <? len l = false).
    { apply Z.ltb_ge. rewrite len_app. pose proof (len_nonneg rest).
      assert (len l <= len (concat (map cbor_enc l))); [|lia].
      clear. induction l as [|x l IHl]; cbn [map concat]; [unfold len; cbn; lia|].
      rewrite len_app. unfold len in *. cbn [length]. 
      assert (1 <= Z.of_nat (length (cbor_enc x))); [|lia].
      destruct x; cbn [cbor_enc]; unfold cbor_head;
        repeat match goal with |- context [if ?c then _ else _] => destruct c end;
        try destruct b; cbn [length app]; rewrite ?app_length; cbn [length]; lia. }
    rewrite Hlen. unfold len at 1. rewrite Nat2Z.id.
    rewrite (dec_items_ok f l rest); [reflexivity| |exact Wl].
    cbn [depth] in Hf. apply Nat.succ_lt_mono in Hf.
    clear -IH Hf. induction l as [|x l IHl]; [constructor|].
    inversion IH as [|? ? Hx Hl]; subst. cbn [fold_right] in Hf. constructor.
    + intros Wx rest. apply Hx; [exact Wx|]. lia.
    + apply IHl; [exact Hl|]. lia.
  - (* map *)
    intros m IH Hwf fuel rest Hf. destruct fuel as [|f]; [lia|]. apply wf_map in Hwf as [Hl Wm]. cbn [cbor_enc].
    pose proof (len_nonneg m). rewrite <- app_assoc.
    set (body := concat (map (fun kv : cbor * cbor => cbor_enc (fst kv) ++ cbor_enc (snd kv)) m)).
    destruct (dec_head 5 (len m) (body ++ rest) ltac:(lia) ltac:(lia)) as (b & t & E & Hb & Ha).
    rewrite E. cbn [cbor_dec]. rewrite Hb. cbn [Z.eqb Pos.eqb]. rewrite Ha. cbn [Z.eqb Pos.eqb].
    assert (Hlen : len (body ++ rest) <? len m = false).
    { apply Z.ltb_ge. rewrite len_app. pose proof (len_nonneg rest).
      assert (len m <= len body); [|lia]. subst body.
      clear. induction m as [|x m IHl]; cbn [map concat]; [unfold len; cbn; lia|].
      rewrite !len_app. unfold len in *. cbn [length].
      assert (1 <= Z.of_nat (length (cbor_enc (fst x)))); [|lia].
      destruct (fst x); cbn [cbor_enc]; unfold cbor_head;
        repeat match goal with |- context [if ?c then _ else _] => destruct c end;
        try destruct b; cbn [length app]; rewrite ?app_length; cbn [length]; lia. }
    rewrite Hlen. unfold len at 1. rewrite Nat2Z.id. subst body.
    rewrite (dec_pairs_ok f m [] rest); [reflexivity| |exact Wm].
    cbn [depth] in Hf. apply Nat.succ_lt_mono in Hf.
    clear -IH Hf. induction m as [|x m IHl]; [constructor|].
    inversion IH as [|? ? [Hk Hx] Hl]; subst. cbn [fold_right] in Hf. constructor.
    + split; intros W rest; [apply Hk|apply Hx]; try exact W; lia.
    + apply IHl; [exact Hl|]. lia.
  - intros [|] _ fuel rest Hf; (destruct fuel as [|f]; [lia|]); reflexivity.
  - intros _ fuel rest Hf; (destruct fuel as [|f]; [lia|]); reflexivity.
  - intros _ fuel rest Hf; (destruct fuel as [|f]; [lia|]); reflexivity.
Qed.

Lemma head_len_pos mt n : (1 <= length (cbor_head mt n))%nat.
Proof. unfold cbor_head. repeat match goal with |- context [if ?c then _ else _] => destruct c end; cbn [length]; lia. Qed.

Lemma depth_le_len : forall v, (depth v <= length (cbor_enc v))%nat.
Proof.
  apply cbor_rect'; intros; cbn [depth cbor_enc]; try lia.
  - rewrite app_length.
    assert ((fold_right (fun x d => Nat.max (depth x) d) O l <= length (concat (map cbor_enc l)))%nat).
    { induction H as [|x l Hx Hl IH]; cbn [fold_right map concat]; [lia|]. rewrite app_length. lia. }
    pose proof (head_len_pos 4 (len l)). lia.
  - rewrite app_length.
    assert ((fold_right (fun kv d => Nat.max (Nat.max (depth (fst kv)) (depth (snd kv))) d) O m
             <= length (concat (map (fun kv => cbor_enc (fst kv) ++ cbor_enc (snd kv)) m)))%nat).
    { induction H as [|x m [Hk Hx] Hl IH]; cbn [fold_right map concat]; [lia|]. rewrite !app_length. lia. }
    pose proof (head_len_pos 5 (len m)). lia.
Qed.

(* well-formed and within the modelled nesting depth *)
Definition wfd (v : cbor) : Prop := wf v /\ (depth v < max_depth)%nat.

Theorem cbor_loads_enc v rest : wfd v -> cbor_loads (cbor_enc v ++ rest) = DOk v rest.
Proof.
  intros [W D]. unfold cbor_loads. apply cbor_dec_enc; [exact W|].
  rewrite app_length. pose proof (depth_le_len v). lia.
Qed.

Corollary parse_cbor_enc v rest : wfd v -> parse_cbor (cbor_enc v ++ rest) = Ok v.
Proof. intros W. unfold parse_cbor. rewrite cbor_loads_enc by exact W. reflexivity. Qed.
