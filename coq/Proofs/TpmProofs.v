From Coq Require Import ZArith List Bool Lia String.
From PW Require Import Model.Base Model.Cbor Model.Tpm Generated.Constants Spec.TpmSpec
  Proofs.Tactics Proofs.CborProofs Proofs.AuthDataExact.
Import ListNotations.
Open Scope Z_scope.

(* ---------- identifier tables: the regenerated constants are the TCG tables, keyed by 2-byte big-endian ids ---------- *)
Definition norm (t : list ((Z * Z) * string)) : list (Z * string) := map (fun e => (snd (fst e), snd e)) t.
Definition all_two_bytes (t : list ((Z * Z) * string)) : bool := forallb (fun e => fst (fst e) =? 2) t.

Lemma st_table_is_tcg : norm tpm_st_map = tcg_st /\ all_two_bytes tpm_st_map = true.
Proof. vm_compute. split; reflexivity. Qed.
Lemma alg_table_is_tcg : norm tpm_alg_map = tcg_alg /\ all_two_bytes tpm_alg_map = true.
Proof. vm_compute. split; reflexivity. Qed.
Lemma curve_table_is_tcg : norm tpm_ecc_curve_map = tcg_curve /\ all_two_bytes tpm_ecc_curve_map = true.
Proof. vm_compute. split; reflexivity. Qed.

Fixpoint nodupb (l : list Z) : bool := match l with [] => true | x :: r => negb (existsb (Z.eqb x) r) && nodupb r end.
Lemma tables_injective :
  nodupb (map fst tcg_st) = true /\ nodupb (map fst tcg_alg) = true /\ nodupb (map fst tcg_curve) = true.
Proof. vm_compute. repeat split. Qed.

Definition opt_str_eqb (a b : option string) : bool :=
  match a, b with Some x, Some y => String.eqb x y | None, None => true | _, _ => false end.
Lemma opt_str_eqb_eq a b : opt_str_eqb a b = true -> a = b.
Proof. destruct a, b; cbn; try discriminate; auto. intros H. apply String.eqb_eq in H. congruence. Qed.

Definition lookups_ok (t : list ((Z * Z) * string)) (spec : list (Z * string)) : bool :=
  forallb (fun e => opt_str_eqb (tbl_get t (be_bytes 2 (fst e))) (Some (snd e))) spec.

Lemma lookups_all : lookups_ok tpm_st_map tcg_st = true /\ lookups_ok tpm_alg_map tcg_alg = true /\ lookups_ok tpm_ecc_curve_map tcg_curve = true.
Proof. vm_compute. repeat split. Qed.

Lemma lookup_lift t spec v name : lookups_ok t spec = true -> In (v, name) spec -> tbl_must t (be_bytes 2 v) = Ok name.
Proof.
  intros H Hin. unfold lookups_ok in H. rewrite forallb_forall in H. specialize (H _ Hin). cbn [fst snd] in H.
  apply opt_str_eqb_eq in H. unfold tbl_must. rewrite H. reflexivity.
Qed.
Lemma st_lookup v name : In (v, name) tcg_st -> tbl_must tpm_st_map (be_bytes 2 v) = Ok name.
Proof. apply lookup_lift. apply lookups_all. Qed.
Lemma alg_lookup v name : In (v, name) tcg_alg -> tbl_must tpm_alg_map (be_bytes 2 v) = Ok name.
Proof. apply lookup_lift. apply lookups_all. Qed.
Lemma curve_lookup v name : In (v, name) tcg_curve -> tbl_must tpm_ecc_curve_map (be_bytes 2 v) = Ok name.
Proof. apply lookup_lift. apply lookups_all. Qed.

(* ---------- attribute bits: for ALL attribute words (no sweep) ---------- *)
Lemma land_pow2 a k : 0 <= k -> Z.land a (2 ^ k) = if Z.testbit a k then 2 ^ k else 0.
Proof.
  intros Hk. apply Z.bits_inj'. intros n Hn. rewrite Z.land_spec, Z.pow2_bits_eqb by exact Hk.
  destruct (Z.eqb_spec k n) as [->|Hne].
  - destruct (Z.testbit a n); [rewrite Z.pow2_bits_eqb, Z.eqb_refl by exact Hk; reflexivity|rewrite Z.bits_0; reflexivity].
  - rewrite andb_false_r. destruct (Z.testbit a k); [rewrite Z.pow2_bits_eqb by exact Hk|rewrite Z.bits_0; reflexivity].
    symmetry. apply Z.eqb_neq. exact Hne.
Qed.

Theorem attr_bit_is_testbit a k : 0 <= k -> attr_bit a k = Z.testbit a k.
Proof.
  intros Hk. unfold attr_bit. rewrite Z.shiftl_1_l, land_pow2 by exact Hk.
  destruct (Z.testbit a k); cbn [negb].
  - assert (0 < 2 ^ k) by (apply Z.pow_pos_nonneg; lia). destruct (Z.eqb_spec (2 ^ k) 0); [lia|reflexivity].
  - reflexivity.
Qed.

Lemma attr_positions_are_spec : attr_positions = map snd tpma_object_bits.
Proof. reflexivity. Qed.

(* ---------- reading fields of a laid-out structure ---------- *)
Lemma read_field (P x T : bytes) p k : len P = p -> len x = k -> slice p (p + k) (P ++ x ++ T) = x.
Proof.
  intros HP Hx. pose proof (len_nonneg P). rewrite slice_shift by lia. rewrite HP.
  replace (p - p) with 0 by lia. replace (p + k - p) with k by lia. apply slice0_exact, Hx.
Qed.
Lemma read_last (P x : bytes) p k : len P = p -> len x = k -> slice p (p + k) (P ++ x) = x.
Proof. intros HP Hx. rewrite <- (app_nil_r x) at 1. apply read_field; assumption. Qed.
Lemma read_rest (P T : bytes) p : len P = p -> drop p (P ++ T) = T.
Proof. intros <-. apply drop_app. Qed.
Lemma len_sized b : len (sized b) = 2 + len b.
Proof. unfold sized. rewrite len_app, len_be_bytes. lia. Qed.
Lemma be2 n : 0 <= n < 65536 -> be_int (be_bytes 2 n) = n.
Proof. intros H. apply be_int_be_bytes. cbn. lia. Qed.
Lemma be4 n : 0 <= n < 2 ^ 32 -> be_int (be_bytes 4 n) = n.
Proof. intros H. apply be_int_be_bytes. change (256 ^ Z.of_nat 4) with (2 ^ 32). lia. Qed.

Ltac lens := rewrite ?len_app, ?len_sized, ?len_be_bytes, ?len_cons; repeat match goal with H : len _ = _ |- _ => rewrite H end; try (unfold len; cbn [Datatypes.length]); lia.

(* slice p (p+k) v = x, given the split v = P ++ x ++ T *)
Ltac field v P x T :=
  replace v with (P ++ x ++ T) by (subst v; unfold sized; rewrite <- ?app_assoc; cbn [app]; rewrite <- ?app_assoc; reflexivity);
  apply read_field; lens.

Theorem parse_cert_info_exact magic typ qs ed clock reset restart safe fw alg nm_rest qn tyname algname :
  len magic = 4 -> len clock = 8 -> len fw = 8 ->
  len qs < 65536 -> len ed < 65536 -> 2 + len nm_rest < 65536 -> len qn < 65536 ->
  0 <= reset < 2 ^ 32 -> 0 <= restart < 2 ^ 32 ->
  In (typ, tyname) tcg_st -> In (alg, algname) tcg_alg ->
  let name := be_bytes 2 alg ++ nm_rest in
  parse_cert_info (tpms_attest magic typ qs ed clock reset restart safe fw name qn) =
    if String.eqb tyname "ATTEST_CERTIFY" then
      Ok {| ci_magic := magic; ci_type := tyname; ci_qualified_signer := qs; ci_extra_data := ed;
            ci_clock := {| ck_clock := clock; ck_reset := reset; ck_restart := restart; ck_safe := negb (safe =? 0) |};
            ci_firmware := fw; ci_name_alg := algname; ci_name_alg_bytes := be_bytes 2 alg; ci_name := name;
            ci_qualified_name := qn |}
    else Err (Lib InvalidTPMCertInfoStructure).
Proof.
  intros Lm Lc Lf Lqs Led Lnm Lqn Hr1 Hr2 Hty Halg name.
  pose proof (len_nonneg qs). pose proof (len_nonneg ed). pose proof (len_nonneg nm_rest). pose proof (len_nonneg qn).
  assert (Lname : len name = 2 + len nm_rest) by (subst name; rewrite len_app, len_be_bytes; lia).
  set (ck := clock ++ be_bytes 4 reset ++ be_bytes 4 restart ++ [safe]).
  assert (Lck : len ck = 17) by (subst ck; rewrite !len_app, !len_be_bytes, Lc; unfold len; cbn [Datatypes.length]; lia).
  unfold tpms_attest. fold ck.
  set (v := magic ++ be_bytes 2 typ ++ sized qs ++ sized ed ++ ck ++ fw ++ sized name ++ sized qn).
  assert (S1 : slice 0 4 v = magic) by (subst v; apply slice0_exact, Lm).
  assert (S2 : slice 4 6 v = be_bytes 2 typ).
  { change 6 with (4 + 2). field v magic (be_bytes 2 typ) (sized qs ++ sized ed ++ ck ++ fw ++ sized name ++ sized qn). }
  assert (S3 : slice 6 8 v = be_bytes 2 (len qs)).
  { change 8 with (6 + 2). field v (magic ++ be_bytes 2 typ) (be_bytes 2 (len qs)) (qs ++ sized ed ++ ck ++ fw ++ sized name ++ sized qn). }
  assert (S4 : slice 8 (8 + len qs) v = qs).
  { field v (magic ++ be_bytes 2 typ ++ be_bytes 2 (len qs)) qs (sized ed ++ ck ++ fw ++ sized name ++ sized qn). }
  set (p1 := 8 + len qs).
  assert (S5 : slice p1 (p1 + 2) v = be_bytes 2 (len ed)).
  { subst p1. field v (magic ++ be_bytes 2 typ ++ sized qs) (be_bytes 2 (len ed)) (ed ++ ck ++ fw ++ sized name ++ sized qn). }
  assert (S6 : slice (p1 + 2) (p1 + 2 + len ed) v = ed).
  { subst p1. field v (magic ++ be_bytes 2 typ ++ sized qs ++ be_bytes 2 (len ed)) ed (ck ++ fw ++ sized name ++ sized qn). }
  set (p2 := p1 + 2 + len ed).
  assert (S7 : slice p2 (p2 + 17) v = ck).
  { subst p2 p1. field v (magic ++ be_bytes 2 typ ++ sized qs ++ sized ed) ck (fw ++ sized name ++ sized qn). }
  assert (S8 : slice (p2 + 17) (p2 + 17 + 8) v = fw).
  { subst p2 p1. field v (magic ++ be_bytes 2 typ ++ sized qs ++ sized ed ++ ck) fw (sized name ++ sized qn). }
  set (p3 := p2 + 17 + 8).
  assert (S9 : slice p3 (p3 + 2) v = be_bytes 2 (len name)).
  { subst p3 p2 p1.
    replace v with ((magic ++ be_bytes 2 typ ++ sized qs ++ sized ed ++ ck ++ fw) ++ (be_bytes 2 (len name)) ++ (name ++ sized qn)).
    2:{ subst v. unfold sized. rewrite <- ?app_assoc. cbn [app]. rewrite <- ?app_assoc. reflexivity. }
    apply read_field; lens. }
  assert (S10 : slice (p3 + 2) (p3 + 2 + len name) v = name).
  { subst p3 p2 p1.
    replace v with ((magic ++ be_bytes 2 typ ++ sized qs ++ sized ed ++ ck ++ fw ++ be_bytes 2 (len name)) ++ name ++ (sized qn)).
    2:{ subst v. unfold sized. rewrite <- ?app_assoc. cbn [app]. rewrite <- ?app_assoc. reflexivity. }
    apply read_field; lens. }
  set (p4 := p3 + 2 + len name).
  assert (S11 : slice p4 (p4 + 2) v = be_bytes 2 (len qn)).
  { subst p4 p3 p2 p1.
    replace v with ((magic ++ be_bytes 2 typ ++ sized qs ++ sized ed ++ ck ++ fw ++ sized name) ++ be_bytes 2 (len qn) ++ qn).
    2:{ subst v. unfold sized. rewrite <- ?app_assoc. cbn [app]. rewrite <- ?app_assoc. reflexivity. }
    apply read_field; lens. }
  assert (S12 : slice (p4 + 2) (p4 + 2 + len qn) v = qn).
  { subst p4 p3 p2 p1.
    replace v with ((magic ++ be_bytes 2 typ ++ sized qs ++ sized ed ++ ck ++ fw ++ sized name ++ be_bytes 2 (len qn)) ++ qn ++ []).
    2:{ subst v. unfold sized. rewrite <- ?app_assoc. cbn [app]. rewrite <- ?app_assoc. rewrite app_nil_r. reflexivity. }
    apply read_field; lens. }
  subst p4 p3 p2 p1.
  unfold parse_cert_info. cbv zeta.
  rewrite S2, (st_lookup _ _ Hty). cbn [bind].
  rewrite S3, be2 by lia. rewrite S5, be2 by lia. rewrite S7.
  destruct (String.eqb tyname "ATTEST_CERTIFY") eqn:Ety; cbn [negb]; [|reflexivity].
  rewrite S9, be2 by lia. rewrite S10. rewrite S11, be2 by lia. rewrite S12.
  assert (N2 : slice 0 2 name = be_bytes 2 alg) by (subst name; apply slice0_exact, len_be_bytes).
  rewrite N2, (alg_lookup _ _ Halg). cbn [bind]. rewrite Lck. cbn [Z.ltb Z.compare Pos.compare Pos.compare_cont].
  rewrite S1, S4, S6, S8.
  assert (C1 : slice 0 8 ck = clock) by (subst ck; apply slice0_exact, Lc).
  assert (C2 : slice 8 12 ck = be_bytes 4 reset).
  { change 12 with (8 + 4). subst ck. apply read_field; [exact Lc|apply len_be_bytes]. }
  assert (C3 : slice 12 16 ck = be_bytes 4 restart).
  { change 16 with (12 + 4). subst ck. rewrite (app_assoc clock). apply read_field; [rewrite len_app, len_be_bytes, Lc; reflexivity|apply len_be_bytes]. }
  assert (C4 : nth 16 ck 0 = safe).
  { subst ck. rewrite !app_assoc. replace 16%nat with (Datatypes.length ((clock ++ be_bytes 4 reset) ++ be_bytes 4 restart)).
    - apply nth_prefix.
    - rewrite !app_length, !be_bytes_length. unfold len in Lc. lia. }
  rewrite C1, C2, C3, C4, !be4 by lia. reflexivity.
Qed.

Ltac split_v v P x T :=
  replace v with (P ++ x ++ T) by (subst v; unfold sized; rewrite <- ?app_assoc; cbn [app]; rewrite <- ?app_assoc; rewrite ?app_nil_r; reflexivity);
  apply read_field; lens.

Theorem parse_pub_area_rsa_exact name_alg attrs ap sym scheme key_bits exponent unique nalg symname schname :
  0 <= attrs < 2 ^ 32 -> len ap < 65536 -> len key_bits = 2 -> len exponent = 4 -> len unique < 65536 ->
  In (name_alg, nalg) tcg_alg -> In (sym, symname) tcg_alg -> In (scheme, schname) tcg_alg ->
  parse_pub_area (tpmt_public_rsa name_alg attrs ap sym scheme key_bits exponent unique) =
    Ok {| pa_type := "RSA"; pa_name_alg := nalg; pa_attrs := attrs; pa_auth_policy := ap;
          pa_params := RSAParams symname schname key_bits exponent; pa_unique := unique |}.
Proof.
  intros Ha Lap Lkb Lex Lu Hna Hsym Hsch.
  pose proof (len_nonneg ap). pose proof (len_nonneg unique).
  unfold tpmt_public_rsa.
  set (ps := be_bytes 2 sym ++ be_bytes 2 scheme ++ key_bits ++ exponent).
  assert (Lps : len ps = 10) by (subst ps; lens).
  set (v := be_bytes 2 1 ++ be_bytes 2 name_alg ++ be_bytes 4 attrs ++ sized ap ++ ps ++ sized unique).
  assert (S1 : slice 0 2 v = be_bytes 2 1) by (subst v; apply slice0_exact, len_be_bytes).
  assert (S2 : slice 2 4 v = be_bytes 2 name_alg).
  { change 4 with (2 + 2). split_v v (be_bytes 2 1) (be_bytes 2 name_alg) (be_bytes 4 attrs ++ sized ap ++ ps ++ sized unique). }
  assert (S3 : slice 4 8 v = be_bytes 4 attrs).
  { change 8 with (4 + 4). split_v v (be_bytes 2 1 ++ be_bytes 2 name_alg) (be_bytes 4 attrs) (sized ap ++ ps ++ sized unique). }
  assert (S4 : slice 8 10 v = be_bytes 2 (len ap)).
  { change 10 with (8 + 2). split_v v (be_bytes 2 1 ++ be_bytes 2 name_alg ++ be_bytes 4 attrs) (be_bytes 2 (len ap)) (ap ++ ps ++ sized unique). }
  assert (S5 : slice 10 (10 + len ap) v = ap).
  { split_v v (be_bytes 2 1 ++ be_bytes 2 name_alg ++ be_bytes 4 attrs ++ be_bytes 2 (len ap)) ap (ps ++ sized unique). }
  assert (S6 : slice (10 + len ap) (10 + len ap + 10) v = ps).
  { split_v v (be_bytes 2 1 ++ be_bytes 2 name_alg ++ be_bytes 4 attrs ++ sized ap) ps (sized unique). }
  assert (S7 : drop (10 + len ap + 10) v = sized unique).
  { replace v with ((be_bytes 2 1 ++ be_bytes 2 name_alg ++ be_bytes 4 attrs ++ sized ap ++ ps) ++ sized unique)
      by (subst v; unfold sized; rewrite <- ?app_assoc; reflexivity).
    apply read_rest. lens. }
  unfold parse_pub_area. cbv zeta.
  rewrite S1, (alg_lookup 1 "RSA") by (cbn; tauto). cbn [bind].
  rewrite S2, (alg_lookup _ _ Hna). cbn [bind].
  rewrite S3, S4, be2, be4 by lia. rewrite S5.
  replace (String.eqb "RSA" "RSA") with true by reflexivity.
  rewrite S6, S7.
  assert (P1 : slice 0 2 ps = be_bytes 2 sym) by (subst ps; apply slice0_exact, len_be_bytes).
  assert (P2 : slice 2 4 ps = be_bytes 2 scheme).
  { change 4 with (2 + 2). subst ps. apply read_field; apply len_be_bytes. }
  assert (P3 : slice 4 6 ps = key_bits).
  { change 6 with (4 + 2). subst ps. rewrite (app_assoc (be_bytes 2 sym)). apply read_field; [lens|exact Lkb]. }
  assert (P4 : slice 6 10 ps = exponent).
  { change 10 with (6 + 4). subst ps. rewrite (app_assoc (be_bytes 2 sym)), (app_assoc (be_bytes 2 sym ++ be_bytes 2 scheme)).
    apply read_last; [lens|exact Lex]. }
  rewrite P1, P2, P3, P4, (alg_lookup _ _ Hsym), (alg_lookup _ _ Hsch). cbn [bind].
  unfold sized. rewrite slice0_exact by apply len_be_bytes. rewrite be2 by lia.
  rewrite (read_last (be_bytes 2 (len unique)) unique 2 (len unique)) by (try apply len_be_bytes; reflexivity).
  reflexivity.
Qed.

Theorem parse_pub_area_ecc_exact name_alg attrs ap sym scheme curve kdf x y nalg symname schname crvname kdfname :
  0 <= attrs < 2 ^ 32 -> len ap < 65536 -> len x < 65536 -> len y < 65536 ->
  In (name_alg, nalg) tcg_alg -> In (sym, symname) tcg_alg -> In (scheme, schname) tcg_alg ->
  In (curve, crvname) tcg_curve -> In (kdf, kdfname) tcg_alg ->
  parse_pub_area (tpmt_public_ecc name_alg attrs ap sym scheme curve kdf x y) =
    Ok {| pa_type := "ECC"; pa_name_alg := nalg; pa_attrs := attrs; pa_auth_policy := ap;
          pa_params := ECCParams symname schname crvname kdfname; pa_unique := x ++ y |}.
Proof.
  intros Ha Lap Lx Ly Hna Hsym Hsch Hcrv Hkdf.
  pose proof (len_nonneg ap). pose proof (len_nonneg x). pose proof (len_nonneg y).
  unfold tpmt_public_ecc.
  set (ps := be_bytes 2 sym ++ be_bytes 2 scheme ++ be_bytes 2 curve ++ be_bytes 2 kdf).
  assert (Lps : len ps = 8) by (subst ps; lens).
  set (v := be_bytes 2 35 ++ be_bytes 2 name_alg ++ be_bytes 4 attrs ++ sized ap ++ ps ++ sized x ++ sized y).
  assert (S1 : slice 0 2 v = be_bytes 2 35) by (subst v; apply slice0_exact, len_be_bytes).
  assert (S2 : slice 2 4 v = be_bytes 2 name_alg).
  { change 4 with (2 + 2). split_v v (be_bytes 2 35) (be_bytes 2 name_alg) (be_bytes 4 attrs ++ sized ap ++ ps ++ sized x ++ sized y). }
  assert (S3 : slice 4 8 v = be_bytes 4 attrs).
  { change 8 with (4 + 4). split_v v (be_bytes 2 35 ++ be_bytes 2 name_alg) (be_bytes 4 attrs) (sized ap ++ ps ++ sized x ++ sized y). }
  assert (S4 : slice 8 10 v = be_bytes 2 (len ap)).
  { change 10 with (8 + 2). split_v v (be_bytes 2 35 ++ be_bytes 2 name_alg ++ be_bytes 4 attrs) (be_bytes 2 (len ap)) (ap ++ ps ++ sized x ++ sized y). }
  assert (S5 : slice 10 (10 + len ap) v = ap).
  { split_v v (be_bytes 2 35 ++ be_bytes 2 name_alg ++ be_bytes 4 attrs ++ be_bytes 2 (len ap)) ap (ps ++ sized x ++ sized y). }
  assert (S6 : slice (10 + len ap) (10 + len ap + 8) v = ps).
  { split_v v (be_bytes 2 35 ++ be_bytes 2 name_alg ++ be_bytes 4 attrs ++ sized ap) ps (sized x ++ sized y). }
  assert (S7 : drop (10 + len ap + 8) v = sized x ++ sized y).
  { replace v with ((be_bytes 2 35 ++ be_bytes 2 name_alg ++ be_bytes 4 attrs ++ sized ap ++ ps) ++ sized x ++ sized y)
      by (subst v; unfold sized; rewrite <- ?app_assoc; reflexivity).
    apply read_rest. lens. }
  unfold parse_pub_area. cbv zeta.
  rewrite S1, (alg_lookup 35 "ECC") by (cbn; tauto). cbn [bind].
  rewrite S2, (alg_lookup _ _ Hna). cbn [bind].
  rewrite S3, S4, be2, be4 by lia. rewrite S5.
  replace (String.eqb "ECC" "RSA") with false by reflexivity. replace (String.eqb "ECC" "ECC") with true by reflexivity.
  rewrite S6, S7.
  assert (P1 : slice 0 2 ps = be_bytes 2 sym) by (subst ps; apply slice0_exact, len_be_bytes).
  assert (P2 : slice 2 4 ps = be_bytes 2 scheme).
  { change 4 with (2 + 2). subst ps. apply read_field; apply len_be_bytes. }
  assert (P3 : slice 4 6 ps = be_bytes 2 curve).
  { change 6 with (4 + 2). subst ps. rewrite (app_assoc (be_bytes 2 sym)). apply read_field; [lens|apply len_be_bytes]. }
  assert (P4 : slice 6 8 ps = be_bytes 2 kdf).
  { change 8 with (6 + 2). subst ps. rewrite (app_assoc (be_bytes 2 sym)), (app_assoc (be_bytes 2 sym ++ be_bytes 2 scheme)).
    apply read_last; [lens|apply len_be_bytes]. }
  rewrite P1, P2, P3, P4, (alg_lookup _ _ Hsym), (alg_lookup _ _ Hsch), (curve_lookup _ _ Hcrv), (alg_lookup _ _ Hkdf). cbn [bind].
  set (u := sized x ++ sized y).
  assert (U1 : slice 0 2 u = be_bytes 2 (len x)) by (subst u; unfold sized; rewrite <- app_assoc; apply slice0_exact, len_be_bytes).
  rewrite U1, be2 by lia.
  assert (U2 : slice 2 (2 + len x) u = x).
  { subst u. unfold sized. rewrite <- app_assoc. apply read_field; [apply len_be_bytes|reflexivity]. }
  assert (U3 : slice (2 + len x) (2 + len x + 2) u = be_bytes 2 (len y)).
  { subst u. unfold sized. apply read_field; lens. }
  rewrite U2, U3, be2 by lia.
  assert (U4 : slice (2 + len x + 2) (2 + len x + 2 + len y) u = y).
  { subst u. unfold sized. replace ((be_bytes 2 (len x) ++ x) ++ be_bytes 2 (len y) ++ y)
      with ((be_bytes 2 (len x) ++ x ++ be_bytes 2 (len y)) ++ y) by (rewrite <- ?app_assoc; reflexivity).
    apply read_last; lens. }
  rewrite U4. reflexivity.
Qed.
