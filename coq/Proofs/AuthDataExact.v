From Coq Require Import ZArith List Bool Lia.
From PW Require Import Model.Base Model.Utf8 Model.Cbor Model.AuthData Spec.AuthDataSpec
  Proofs.Tactics Proofs.CborProofs.
Import ListNotations.
Open Scope Z_scope.

(* ---------- reading at an offset behind a known prefix ---------- *)
Lemma skipn_prefix {A} (pre t : list A) n : (length pre <= n)%nat -> skipn n (pre ++ t) = skipn (n - length pre) t.
Proof.
  intros H. rewrite skipn_app. rewrite (skipn_all2 pre) by exact H. reflexivity.
Qed.

Lemma slice_shift {A} (pre t : list A) a b : 0 <= a -> len pre <= a ->
  slice a b (pre ++ t) = slice (a - len pre) (b - len pre) t.
Proof.
  intros Ha H. unfold slice, len in *. rewrite skipn_prefix by lia.
  replace (Z.to_nat a - length pre)%nat with (Z.to_nat (a - Z.of_nat (length pre))) by lia.
  f_equal. lia.
Qed.

Lemma drop_shift {A} (pre t : list A) a : 0 <= a -> len pre <= a -> drop a (pre ++ t) = drop (a - len pre) t.
Proof.
  intros Ha H. unfold drop, len in *. rewrite skipn_prefix by lia. f_equal. lia.
Qed.

Lemma slice0_exact {A} (x r : list A) k : len x = k -> slice 0 k (x ++ r) = x.
Proof. intros <-. apply slice0_app. Qed.
Lemma drop0 {A} (l : list A) : drop 0 l = l.
Proof. reflexivity. Qed.
Lemma drop_exact {A} (x r : list A) k : len x = k -> drop k (x ++ r) = r.
Proof. intros <-. apply drop_app. Qed.

Lemma nth_prefix (pre : bytes) x t : nth (length pre) (pre ++ x :: t) 0 = x.
Proof. rewrite app_nth2 by lia. rewrite Nat.sub_diag. reflexivity. Qed.

Lemma len_be_bytes k n : len (be_bytes k n) = Z.of_nat k.
Proof. unfold len. rewrite be_bytes_length. reflexivity. Qed.

Lemma len_cons {A} (x : A) l : len (x :: l) = 1 + len l.
Proof. unfold len. cbn [length]. lia. Qed.

(* a 17-byte window starting with a byte other than 0xA3 is not the bad-EdDSA prefix *)
Lemma not_bad_eddsa (w : bytes) : nth 0 w 0 <> 163 -> bytes_eqb (slice 0 (len bad_eddsa) w) bad_eddsa = false.
Proof.
  intros H. destruct (bytes_eqb (slice 0 (len bad_eddsa) w) bad_eddsa) eqn:E; [|reflexivity].
  apply bytes_eqb_eq in E. exfalso. apply H.
  destruct w as [|b w]; [discriminate|].
  unfold slice in E. cbn in E. injection E as -> _. reflexivity.
Qed.

Ltac finish_len Hlen :=
  match goal with Lv : len _ = 37 + len ?T |- _ => rewrite Lv, Hlen end;
  match goal with |- context [match ?sfx with [] => _ | _ :: _ => _ end] =>
    destruct sfx as [|s0 sfx'];
    [replace (len (@nil Z)) with 0 by reflexivity | rewrite len_cons; pose proof (len_nonneg sfx')] end;
  match goal with |- (if ?c then _ else _) = _ => first [replace c with false by lia | replace c with true by lia] end;
  reflexivity.

Definition att_ok (a : option att_fields) (rest : bytes) : Prop :=
  match a with
  | Some x => len (sp_aaguid x) = 16 /\ len (sp_cred_id x) < 65536 /\ wfd (sp_key x) /\
              nth 0 (cbor_enc (sp_key x) ++ rest) 0 <> 163
  | None => True
  end.
Definition ext_ok (e : option cbor) : Prop := match e with Some v => wfd v | None => True end.

Definition expected (rp : bytes) (fl count : Z) (a : option att_fields) (e : option cbor) : auth_data :=
  {| ad_rp_hash := rp; ad_flags := fl; ad_count := count;
     ad_att := option_map (fun x => {| ac_aaguid := sp_aaguid x; ac_cred_id := sp_cred_id x;
                                       ac_pubkey := cbor_enc (sp_key x) |}) a;
     ad_ext := option_map cbor_enc e |}.

Theorem parse_layout rp fl count a e suffix :
  len rp = 32 -> 0 <= count < 2 ^ 32 ->
  flag fl 6 = is_some a -> flag fl 7 = is_some e ->
  att_ok a (ext_bytes e ++ suffix) -> ext_ok e ->
  parse_auth_data (authdata_layout rp fl count a e ++ suffix) =
    match suffix with
    | [] => Ok (expected rp fl count a e)
    | _ => Err (Lib InvalidAuthenticatorDataStructure)
    end.
Proof.
  intros Hrp Hc Hat Hed Ha He.
  unfold authdata_layout.
  set (tail := att_bytes a ++ ext_bytes e).
  (* v = rp ++ [fl] ++ cnt ++ tail ++ suffix *)
  assert (Ev : (rp ++ [fl] ++ be_bytes 4 count ++ tail) ++ suffix
               = rp ++ fl :: be_bytes 4 count ++ (tail ++ suffix)).
  { cbn [app]. rewrite <- !app_assoc. cbn [app]. rewrite <- !app_assoc. reflexivity. }
  rewrite Ev. clear Ev.
  set (T := tail ++ suffix).
  set (v := rp ++ fl :: be_bytes 4 count ++ T).
  assert (Lv : len v = 37 + len T).
  { subst v. rewrite len_app, len_cons, len_app, len_be_bytes, Hrp. lia. }
  pose proof (len_nonneg T) as LT.
  unfold parse_auth_data. cbv zeta. replace (len v <? 37) with false by lia.
  assert (S1 : slice 0 32 v = rp) by (subst v; apply slice0_exact, Hrp).
  assert (S2 : nth 32 v 0 = fl).
  { subst v. replace 32%nat with (length rp) by (unfold len in Hrp; lia). apply nth_prefix. }
  assert (S3 : be_int (slice 33 37 v) = count).
  { subst v. change (rp ++ fl :: be_bytes 4 count ++ T) with (rp ++ ([fl] ++ be_bytes 4 count ++ T)).
    rewrite app_assoc. rewrite slice_shift by (rewrite ?len_app, ?Hrp; cbn; lia).
    rewrite len_app, Hrp. change (len [fl]) with 1. replace (33 - (32 + 1)) with 0 by lia. replace (37 - (32 + 1)) with 4 by lia.
    rewrite slice0_exact by apply len_be_bytes. apply be_int_be_bytes. cbn. lia. }
  (* everything at offset p >= 37 reads from T *)
  assert (SH : forall p q, 37 <= p -> slice p q v = slice (p - 37) (q - 37) T).
  { intros p q Hp. subst v. change (rp ++ fl :: be_bytes 4 count ++ T) with (rp ++ ([fl] ++ be_bytes 4 count ++ T)).
    rewrite !app_assoc. rewrite slice_shift; rewrite ?len_app, ?len_be_bytes, ?Hrp; change (len [fl]) with 1; try lia.
    f_equal; lia. }
  assert (DH : forall p, 37 <= p -> drop p v = drop (p - 37) T).
  { intros p Hp. subst v. change (rp ++ fl :: be_bytes 4 count ++ T) with (rp ++ ([fl] ++ be_bytes 4 count ++ T)).
    rewrite !app_assoc. rewrite drop_shift; rewrite ?len_app, ?len_be_bytes, ?Hrp; change (len [fl]) with 1; try lia.
    f_equal; lia. }
  rewrite S1, S2, S3, Hat, Hed.
  destruct a as [x|]; cbn [is_some att_bytes] in *.
  - (* attested credential data present *)
    destruct Ha as (Lag & Lcid & Wk & Nb).
    pose proof (len_nonneg (sp_cred_id x)) as Lc0.
    set (kb := cbor_enc (sp_key x)) in *.
    set (R := ext_bytes e ++ suffix) in *.
    assert (ET : T = sp_aaguid x ++ be_bytes 2 (len (sp_cred_id x)) ++ sp_cred_id x ++ kb ++ R).
    { subst T tail R. rewrite <- !app_assoc. reflexivity. }
    assert (A1 : slice 0 16 T = sp_aaguid x) by (rewrite ET; apply slice0_exact, Lag).
    assert (A2 : be_int (slice 16 18 T) = len (sp_cred_id x)).
    { rewrite ET. rewrite slice_shift by lia. rewrite Lag. replace (16 - 16) with 0 by lia. replace (18 - 16) with 2 by lia.
      rewrite slice0_exact by apply len_be_bytes. apply be_int_be_bytes. cbn. lia. }
    rewrite (SH (37 + 16) (37 + 18)) by lia.
    replace (37 + 16 - 37) with 16 by lia. replace (37 + 18 - 37) with 18 by lia. rewrite A2.
    rewrite (SH 37 (37 + 16)) by lia. replace (37 - 37) with 0 by lia. replace (37 + 16 - 37) with 16 by lia. rewrite A1.
    set (L := len (sp_cred_id x)) in *.
    rewrite (SH (37 + 18) (37 + 18 + L)) by lia.
    rewrite (SH (37 + 18 + L) (37 + 18 + L + len bad_eddsa)) by lia.
    replace (37 + 18 - 37) with 18 by lia.
    replace (37 + 18 + L - 37) with (18 + L) by lia.
    assert (A3 : slice 18 (18 + L) T = sp_cred_id x).
    { rewrite ET. rewrite app_assoc. rewrite slice_shift by (rewrite ?len_app, ?len_be_bytes, ?Lag; lia).
      rewrite len_app, len_be_bytes, Lag. replace (18 - (16 + Z.of_nat 2)) with 0 by lia.
      replace (18 + L - (16 + Z.of_nat 2)) with L by lia. apply slice0_exact. reflexivity. }
    rewrite A3.
    assert (A4 : drop (18 + L) T = kb ++ R).
    { rewrite ET. rewrite !app_assoc. rewrite <- (app_assoc _ kb R).
      apply drop_exact. rewrite !len_app, len_be_bytes, Lag. subst L. lia. }
    assert (A5 : slice (18 + L) (18 + L + len bad_eddsa) T = slice 0 (len bad_eddsa) (kb ++ R)).
    { rewrite ET. rewrite !app_assoc. rewrite <- (app_assoc _ kb R).
      rewrite slice_shift; rewrite ?len_app, ?len_be_bytes, ?Lag; subst L; try lia. f_equal; lia. }
    replace (37 + 18 + L + len bad_eddsa - 37) with (18 + L + len bad_eddsa) by lia.
    rewrite A5, (not_bad_eddsa _ Nb).
    rewrite DH by lia. replace (37 + 18 + L - 37) with (18 + L) by lia. rewrite A4.
    change (parse_cbor (kb ++ R)) with (parse_cbor (cbor_enc (sp_key x) ++ R)).
    rewrite parse_cbor_enc by exact Wk. cbn [bind]. fold kb.
    pose proof (len_nonneg kb) as Lk0.
    destruct e as [ev|]; cbn [is_some ext_bytes] in *.
    + (* extensions present *)
      subst R. rewrite DH by lia.
      assert (A6 : drop (37 + 18 + L + len kb - 37) T = cbor_enc ev ++ suffix).
      { rewrite ET. rewrite !app_assoc. rewrite <- (app_assoc _ (cbor_enc ev) suffix).
        apply drop_exact. rewrite !len_app, len_be_bytes, Lag. subst L. lia. }
      rewrite A6. rewrite parse_cbor_enc by exact He. cbn [bind].
      assert (LT2 : len T = 16 + 2 + L + len kb + len (cbor_enc ev) + len suffix).
      { rewrite ET. rewrite !len_app, len_be_bytes, Lag. fold L. cbn [ext_bytes]. lia. }
      pose proof (len_nonneg (cbor_enc ev)).
      finish_len LT2.
    + (* no extensions *)
      cbn [bind].
      assert (LT2 : len T = 16 + 2 + L + len kb + len suffix).
      { rewrite ET. subst R. cbn [ext_bytes app]. rewrite !len_app, len_be_bytes, Lag. fold L. lia. }
      finish_len LT2.
  - (* no attested credential data *)
    cbn [bind]. destruct e as [ev|]; cbn [is_some ext_bytes] in *.
    + rewrite DH by lia. replace (37 - 37) with 0 by lia. rewrite drop0.
      assert (ET : T = cbor_enc ev ++ suffix) by (subst T tail; reflexivity).
      rewrite ET at 1. rewrite parse_cbor_enc by exact He. cbn [bind].
      assert (LT2 : len T = len (cbor_enc ev) + len suffix) by (rewrite ET, len_app; reflexivity).
      pose proof (len_nonneg (cbor_enc ev)).
      finish_len LT2.
    + cbn [bind].
      assert (LT2 : len T = len suffix) by (subst T tail; reflexivity).
      finish_len LT2.
Qed.
