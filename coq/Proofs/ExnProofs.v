From Coq Require Import ZArith List Bool Lia String.
From PW Require Import Model.Base Model.SigTypes Model.Json Model.Base64 Model.Utf8 Model.Cbor Model.AuthData
  Model.Oracles Model.ClientData Model.CredJson Model.Cose Model.SigAlg Model.Tpm Model.Formats Model.VerifyAuth Model.VerifyReg
  Generated.Constants Proofs.Tactics Proofs.SigProofs.
Import ListNotations.
Open Scope Z_scope.

(* ---------- the hierarchy (reflective export, finite obligation) ---------- *)
Definition derives_from_base (c : string * list string) : bool :=
  String.eqb (fst c) exception_base || existsb (String.eqb exception_base) (snd c).
Lemma hierarchy_ok : forallb derives_from_base exception_classes = true /\ exception_base = "WebAuthnException"%string.
Proof. vm_compute. split; reflexivity. Qed.

(* the model's lib_exn enumeration is exactly the exported class list *)
Definition lib_names : list string :=
  ["WebAuthnException"; "InvalidRegistrationOptions"; "InvalidRegistrationResponse"; "InvalidAuthenticationOptions";
   "InvalidAuthenticationResponse"; "InvalidPublicKeyStructure"; "UnsupportedPublicKeyType"; "InvalidJSONStructure";
   "InvalidAuthenticatorDataStructure"; "SignatureVerificationException"; "UnsupportedAlgorithm"; "UnsupportedPublicKey";
   "UnsupportedEC2Curve"; "InvalidTPMPubAreaStructure"; "InvalidTPMCertInfoStructure"; "InvalidCertificateChain";
   "InvalidBackupFlags"; "InvalidCBORData"]%string.
Lemma class_list_is_enum : map fst exception_classes = lib_names.
Proof. vm_compute. reflexivity. Qed.

(* ---------- rejections of well-formed responses are library exceptions ---------- *)
Definition lib_or_ok {A} (r : res A) : Prop := match r with Ok _ | Err (Lib _) => True | _ => False end.

Lemma lob_bind {A B} (r : res A) (k : A -> res B) :
  lib_or_ok r -> (forall a, r = Ok a -> lib_or_ok (k a)) -> lib_or_ok (bind r k).
Proof. destruct r as [a|[c| |]]; cbn; intros H K; auto; contradiction. Qed.
Lemma lob_guard {B} c l (k : unit -> res B) : lib_or_ok (k tt) -> lib_or_ok (bind (guard c (Lib l)) k).
Proof. destruct c; cbn; auto. Qed.
Lemma lob_need {B} c (k : unit -> res B) : lib_or_ok (k tt) -> lib_or_ok (bind (need c) k).
Proof. unfold need. apply lob_guard. Qed.

Lemma verify_signature_lob O pk alg s msg : lib_or_ok (verify_signature O pk alg (CBytes s) msg).
Proof.
  unfold verify_signature.
  destruct (match alg_int alg with Some z => scheme_of (kind_of pk) z | None => scheme_default (kind_of pk) end); exact I.
Qed.
Lemma backup_flags_lob be bs : lib_or_ok (parse_backup_flags be bs).
Proof. unfold parse_backup_flags. destruct (negb be && bs); exact I. Qed.

(* WF: the pieces a well-formed response consists of parse (or are refused with a library exception) *)
Record auth_wf (O : oracles) (P : auth_policy) (c : auth_cred) : Prop := {
  aw_cd : lib_or_ok (parse_client_data O (acr_client_data c));
  aw_ad : lib_or_ok (parse_auth_data (acr_auth_data c));
  aw_rp : lib_or_ok (rp_id_hash O (ap_rp_id P));
  aw_key : lib_or_ok (decode_credential_public_key (ap_pubkey P));
  aw_crypto : forall dk, decode_credential_public_key (ap_pubkey P) = Ok dk -> lib_or_ok (to_crypto O dk) }.

Theorem auth_rejections_in_hierarchy O P c : auth_wf O P c -> lib_or_ok (verify_auth_rec O P c).
Proof.
  intros [Hcd Had Hrp Hk Hc]. unfold verify_auth_rec.
  apply lob_guard. apply lob_guard.
  apply lob_bind; [exact Hcd|intros cd _].
  do 4 apply lob_guard.
  apply lob_bind; [exact Had|intros ad _].
  apply lob_bind; [exact Hrp|intros h _].
  do 4 apply lob_guard.
  apply lob_bind; [exact Hk|intros dk Edk].
  apply lob_bind; [exact (Hc dk Edk)|intros pk _].
  apply lob_bind; [apply verify_signature_lob|intros okv _].
  apply lob_guard.
  apply lob_bind; [apply backup_flags_lob|intros bf _]. exact I.
Qed.

Record reg_wf (O : oracles) (P : reg_policy) (c : reg_cred) : Prop := {
  rw_cd : lib_or_ok (parse_client_data O (rcr_client_data c));
  rw_ao : lib_or_ok (parse_att_object (rcr_att_obj c));
  rw_rp : lib_or_ok (rp_id_hash O (rp_rp_id P));
  rw_fmt : forall ao, parse_att_object (rcr_att_obj c) = Ok ao -> exists fmt, ao_fmt ao = CText fmt;
  rw_key : forall ao att, parse_att_object (rcr_att_obj c) = Ok ao -> ad_att (ao_auth_data ao) = Some att ->
      lib_or_ok (decode_credential_public_key (ac_pubkey att));
  rw_stmt : forall ao att fmt, parse_att_object (rcr_att_obj c) = Ok ao -> ad_att (ao_auth_data ao) = Some att -> ao_fmt ao = CText fmt ->
      lib_or_ok (verify_statement O P fmt (ao_stmt ao) (ao_auth_data_raw ao) (rcr_client_data c) (ao_auth_data ao) att) }.

Lemma aaguid_lob_16 v : len v = 16 -> lib_or_ok (aaguid_to_string v).
Proof. intros H. unfold aaguid_to_string. rewrite H. exact I. Qed.

Theorem reg_rejections_in_hierarchy O P c : reg_wf O P c ->
  (forall ao att, parse_att_object (rcr_att_obj c) = Ok ao -> ad_att (ao_auth_data ao) = Some att -> len (ac_aaguid att) = 16) ->
  lib_or_ok (verify_reg_rec O P c).
Proof.
  intros [Hcd Hao Hrp Hfmt Hk Hst] Hag. unfold verify_reg_rec.
  apply lob_guard. apply lob_guard.
  apply lob_bind; [exact Hcd|intros cd _].
  do 4 apply lob_need.
  apply lob_bind; [exact Hao|intros ao Eao].
  apply lob_bind; [exact Hrp|intros h _].
  do 3 apply lob_need.
  destruct (ad_att (ao_auth_data ao)) as [att|] eqn:Eatt; [|exact I].
  do 3 apply lob_need.
  apply lob_bind; [exact (Hk ao att Eao Eatt)|intros dk _].
  apply lob_need.
  destruct (Hfmt ao Eao) as [fmt Ef]. rewrite Ef.
  apply lob_bind; [exact (Hst ao att fmt Eao Eatt Ef)|intros u _].
  apply lob_bind; [apply backup_flags_lob|intros bf _].
  apply lob_bind; [apply aaguid_lob_16, (Hag ao att Eao Eatt)|intros ag _]. exact I.
Qed.

(* the 'none' format and the unknown-format branch always answer inside the hierarchy *)
Theorem statement_none_lob O P st adr cdj ad att : lib_or_ok (verify_statement O P (s2l "none") st adr cdj ad att).
Proof.
  unfold verify_statement. replace (fmt_is (s2l "none") "none") with true by (vm_compute; reflexivity).
  unfold need, guard. destruct (negb (stmt_any_set st)); exact I.
Qed.

(* verification never reports failure by returning a value: the result types have no failure value -
   verify_* either returns the complete record or Err; and the statement verifiers return unit only on success *)
Theorem no_false_result O P fmt st adr cdj ad att u : verify_statement O P fmt st adr cdj ad att = Ok u -> u = tt.
Proof. destruct u. reflexivity. Qed.
