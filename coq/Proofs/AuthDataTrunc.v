(* Authenticator data: every strict prefix of a well-formed layout is rejected (C11, truncation). *)
From Coq Require Import ZArith List Bool Lia.
From PW Require Import Model.Base Model.Utf8 Model.Cbor Model.AuthData Spec.AuthDataSpec
  Proofs.Tactics Proofs.CborProofs Proofs.CborPrefix Proofs.AuthDataExact.
Import ListNotations.
Open Scope Z_scope.

Definition rejected (r : res auth_data) : Prop :=
  r = Err (Lib InvalidAuthenticatorDataStructure) \/ r = Err (Lib InvalidCBORData) \/ r = Err Unmodelled.

(* ---------- generic facts ---------- *)
Lemma header_facts rp fl cnt (T : bytes) : len rp = 32 ->
  let v := rp ++ fl :: be_bytes 4 cnt ++ T in
  len v = 37 + len T /\ nth 32 v 0 = fl /\
  (forall p q, 37 <= p -> slice p q v = slice (p - 37) (q - 37) T) /\
  (forall p, 37 <= p -> drop p v = drop (p - 37) T).
Proof.
  intros Hrp v. repeat split.
  - subst v. rewrite len_app, len_cons, len_app, len_be_bytes, Hrp. lia.
  - subst v. replace 32%nat with (length rp) by (unfold len in Hrp; lia). apply nth_prefix.
  - intros p q Hp. subst v. change (rp ++ fl :: be_bytes 4 cnt ++ T) with (rp ++ ([fl] ++ be_bytes 4 cnt ++ T)).
    rewrite !app_assoc. rewrite slice_shift; rewrite ?len_app, ?len_be_bytes, ?Hrp; change (len [fl]) with 1; try lia.
    f_equal; lia.
  - intros p Hp. subst v. change (rp ++ fl :: be_bytes 4 cnt ++ T) with (rp ++ ([fl] ++ be_bytes 4 cnt ++ T)).
    rewrite !app_assoc. rewrite drop_shift; rewrite ?len_app, ?len_be_bytes, ?Hrp; change (len [fl]) with 1; try lia.
    f_equal; lia.
Qed.

Lemma slice_beyond {A} (l : list A) a b : 0 <= a -> len l <= a -> slice a b l = [].
Proof. intros Ha H. unfold slice, len in *. rewrite skipn_all2 by lia. apply firstn_nil. Qed.
Lemma drop_beyond {A} (l : list A) a : 0 <= a -> len l <= a -> drop a l = [].
Proof. intros Ha H. unfold drop, len in *. apply skipn_all2. lia. Qed.
Lemma slice0_short {A} (l : list A) k : len l <= k -> slice 0 k l = l.
Proof. intros H. unfold slice, len in *. cbn [Z.to_nat skipn]. apply firstn_all2. lia. Qed.

Lemma be_int_acc_nonneg l : forall acc, 0 <= acc -> Forall (fun b => 0 <= b) l -> 0 <= be_int_acc acc l.
Proof.
  induction l as [|b l IH]; intros acc Ha HF; cbn [be_int_acc]; [exact Ha|].
  inversion HF; subst. apply IH; [lia|assumption].
Qed.
Lemma be_go_nonneg k : forall n acc, Forall (fun b => 0 <= b) acc -> Forall (fun b => 0 <= b) (be_go k n acc).
Proof.
  induction k as [|k IH]; intros n acc HF; cbn [be_go]; [exact HF|].
  apply IH. constructor; [lia|exact HF].
Qed.
Lemma be_bytes_nonneg k n : Forall (fun b => 0 <= b) (be_bytes k n).
Proof. rewrite be_bytes_go. apply be_go_nonneg. constructor. Qed.

Lemma parse_cbor_nil : parse_cbor [] = Err (Lib InvalidCBORData).
Proof. reflexivity. Qed.

Lemma bind_rejected {B} (r : res B) (k : B -> res auth_data) :
  (r = Err (Lib InvalidCBORData) \/ r = Err Unmodelled) -> rejected (bind r k).
Proof. intros [-> | ->]; cbn [bind]; unfold rejected; auto. Qed.

(* attested data announced, but the input ends at or before the end of the credential id it announces *)
Lemma parse_at_short rp fl cnt (T : bytes) : len rp = 32 -> flag fl 6 = true ->
  0 <= be_int (slice 16 18 T) -> len T <= 18 + be_int (slice 16 18 T) ->
  parse_auth_data (rp ++ fl :: be_bytes 4 cnt ++ T) = Err (Lib InvalidCBORData).
Proof.
  intros Hrp Hat Hi Hl. destruct (header_facts rp fl cnt T Hrp) as (Lv & S2 & SH & DH).
  set (v := rp ++ fl :: be_bytes 4 cnt ++ T) in *. pose proof (len_nonneg T).
  unfold parse_auth_data. cbv zeta. replace (len v <? 37) with false by lia.
  rewrite S2, Hat.
  rewrite (SH (37 + 16) (37 + 18)) by lia.
  replace (37 + 16 - 37) with 16 by lia. replace (37 + 18 - 37) with 18 by lia.
  set (L := be_int (slice 16 18 T)) in *.
  rewrite (SH (37 + 18 + L) (37 + 18 + L + len bad_eddsa)) by lia.
  rewrite (slice_beyond T (37 + 18 + L - 37)) by lia.
  change (bytes_eqb [] bad_eddsa) with false. cbv iota.
  rewrite DH by lia. rewrite drop_beyond by lia. rewrite parse_cbor_nil. reflexivity.
Qed.

Lemma nth0_prefix (q t : bytes) : nth 0 (q ++ t) 0 <> 163 -> nth 0 q 0 <> 163.
Proof. destruct q; cbn; [lia|auto]. Qed.

(* ---------- the theorem ---------- *)
Theorem parse_truncated rp fl count a e q t :
  len rp = 32 -> 0 <= count < 2 ^ 32 ->
  flag fl 6 = is_some a -> flag fl 7 = is_some e ->
  att_ok a (ext_bytes e) -> ext_ok e ->
  t <> [] -> q ++ t = authdata_layout rp fl count a e ->
  rejected (parse_auth_data q).
Proof.
  intros Hrp Hc Hat Hed Ha He Ht H.
  unfold authdata_layout in H.
  (* the 37-byte header *)
  replace (rp ++ [fl] ++ be_bytes 4 count ++ att_bytes a ++ ext_bytes e)
    with ((rp ++ [fl] ++ be_bytes 4 count) ++ att_bytes a ++ ext_bytes e) in H
    by (rewrite <- !app_assoc; reflexivity).
  assert (Lh : len (rp ++ [fl] ++ be_bytes 4 count) = 37).
  { rewrite !len_app, len_be_bytes, Hrp. reflexivity. }
  apply prefix_split in H as [(t' & Ht' & E)|(q' & -> & E)].
  { pose proof (strict_prefix_len q t' _ Ht' E) as Lq. rewrite Lh in Lq.
    unfold parse_auth_data. replace (len q <? 37) with true by lia. left. reflexivity. }
  replace ((rp ++ [fl] ++ be_bytes 4 count) ++ q') with (rp ++ fl :: be_bytes 4 count ++ q')
    by (cbn [app]; rewrite <- !app_assoc; reflexivity).
  destruct a as [x|]; cbn [is_some att_bytes] in *.
  - (* attested credential data announced *)
    destruct Ha as (Lag & Lcid & Wk & Nb).
    set (L := len (sp_cred_id x)) in *. pose proof (len_nonneg (sp_cred_id x)) as L0. fold L in L0.
    rewrite <- !app_assoc in E.
    apply prefix_split in E as [(t1 & Ht1 & E)|(q1 & -> & E)].
    { (* inside the aaguid *)
      pose proof (strict_prefix_len q' t1 _ Ht1 E) as Lq. rewrite Lag in Lq.
      right. left. apply parse_at_short; try assumption.
      - rewrite slice_beyond by lia. cbn. lia.
      - rewrite slice_beyond by lia. cbn. lia. }
    apply prefix_split in E as [(t2 & Ht2 & E)|(q2 & -> & E)].
    { (* inside the two length bytes *)
      pose proof (strict_prefix_len q1 t2 _ Ht2 E) as Lq. rewrite len_be_bytes in Lq.
      assert (S : slice 16 18 (sp_aaguid x ++ q1) = q1).
      { rewrite slice_shift by lia. rewrite Lag. replace (16 - 16) with 0 by lia. apply slice0_short. lia. }
      assert (N : 0 <= be_int q1).
      { apply be_int_acc_nonneg; [lia|]. pose proof (be_bytes_nonneg 2 L) as HF. rewrite <- E in HF.
        apply Forall_app in HF. apply HF. }
      pose proof (len_nonneg q1).
      right. left. apply parse_at_short; try assumption; rewrite S; [exact N|]. rewrite len_app, Lag. lia. }
    assert (S : be_int (slice 16 18 (sp_aaguid x ++ be_bytes 2 L ++ q2)) = L).
    { rewrite slice_shift by lia. rewrite Lag. replace (16 - 16) with 0 by lia. replace (18 - 16) with 2 by lia.
      rewrite slice0_exact by apply len_be_bytes. apply be_int_be_bytes. cbn. lia. }
    apply prefix_split in E as [(t3 & Ht3 & E)|(q3 & -> & E)].
    { (* inside the credential id *)
      pose proof (strict_prefix_len q2 t3 _ Ht3 E) as Lq. fold L in Lq.
      right. left. apply parse_at_short; try assumption; rewrite S; [lia|].
      rewrite !len_app, Lag, len_be_bytes. lia. }
    (* the credential id is complete: q3 is a strict prefix of key ++ extensions *)
    set (kb := cbor_enc (sp_key x)) in *.
    set (T := sp_aaguid x ++ be_bytes 2 L ++ sp_cred_id x ++ q3) in *.
    destruct (header_facts rp fl count T Hrp) as (Lv & S2 & SH & DH).
    set (v := rp ++ fl :: be_bytes 4 count ++ T) in *. pose proof (len_nonneg T) as LT.
    unfold parse_auth_data. cbv zeta. replace (len v <? 37) with false by lia.
    rewrite S2, Hat.
    rewrite (SH (37 + 16) (37 + 18)) by lia.
    replace (37 + 16 - 37) with 16 by lia. replace (37 + 18 - 37) with 18 by lia. rewrite S.
    rewrite (SH (37 + 18 + L) (37 + 18 + L + len bad_eddsa)) by lia.
    replace (37 + 18 + L - 37) with (18 + L) by lia.
    replace (37 + 18 + L + len bad_eddsa - 37) with (18 + L + len bad_eddsa) by lia.
    assert (A4 : drop (18 + L) T = q3).
    { subst T. rewrite !app_assoc. apply drop_exact. rewrite !len_app, len_be_bytes, Lag. subst L. lia. }
    assert (A5 : slice (18 + L) (18 + L + len bad_eddsa) T = slice 0 (len bad_eddsa) q3).
    { subst T. rewrite !app_assoc.
      rewrite slice_shift; rewrite ?len_app, ?len_be_bytes, ?Lag; subst L; try lia. f_equal; lia. }
    assert (Nq : nth 0 q3 0 <> 163).
    { apply (nth0_prefix q3 t). rewrite E. exact Nb. }
    rewrite A5, (not_bad_eddsa _ Nq).
    rewrite DH by lia. replace (37 + 18 + L - 37) with (18 + L) by lia. rewrite A4.
    apply prefix_split in E as [(t4 & Ht4 & E)|(q4 & -> & E)].
    { (* inside the public key *)
      destruct Wk as [Wk _]. destruct (parse_cbor_trunc (sp_key x) q3 t4 Wk Ht4 E) as [-> | ->]; cbn [bind]; unfold rejected; auto. }
    fold kb. change (parse_cbor (kb ++ q4)) with (parse_cbor (cbor_enc (sp_key x) ++ q4)).
    rewrite parse_cbor_enc by exact Wk. cbn [bind]. fold kb.
    destruct e as [ev|]; cbn [is_some ext_bytes] in *.
    2:{ apply app_eq_nil in E as [_ ->]. congruence. }
    rewrite Hed. rewrite DH by (pose proof (len_nonneg kb); lia).
    assert (A6 : drop (37 + 18 + L + len kb - 37) T = q4).
    { subst T. rewrite !app_assoc. apply drop_exact. rewrite !len_app, len_be_bytes, Lag. subst L. lia. }
    rewrite A6. destruct He as [We _]. destruct (parse_cbor_trunc ev q4 t We Ht E) as [-> | ->]; cbn [bind]; unfold rejected; auto.
  - (* no attested credential data *)
    cbn [app] in E.
    destruct e as [ev|]; cbn [is_some ext_bytes] in *.
    2:{ apply app_eq_nil in E as [_ ->]. congruence. }
    destruct (header_facts rp fl count q' Hrp) as (Lv & S2 & SH & DH).
    set (v := rp ++ fl :: be_bytes 4 count ++ q') in *. pose proof (len_nonneg q') as LT.
    unfold parse_auth_data. cbv zeta. replace (len v <? 37) with false by lia.
    rewrite S2, Hat, Hed. cbn [bind]. rewrite DH by lia. replace (37 - 37) with 0 by lia. rewrite drop0.
    destruct He as [We _]. destruct (parse_cbor_trunc ev q' t We Ht E) as [-> | ->]; cbn [bind]; unfold rejected; auto.
Qed.
