(* GENERATED ONCE by tools/gen_examples.py from the ceremony simulator (static, committed). *)
From Coq Require Import ZArith List Bool String.
From PW Require Import Model.Base Model.SigTypes Model.Json Model.Base64 Model.Cbor Model.AuthData Model.Oracles Model.ClientData
  Model.CredJson Model.Cose Model.SigAlg Model.Formats Model.VerifyAuth Model.VerifyReg Spec.AuthSpec Spec.RegSpec Proofs.AuthProofs Proofs.RegProofs.
Import ListNotations.
Open Scope Z_scope.

Definition ex_cdj : bytes := [123; 34; 116; 121; 112; 101; 34; 58; 34; 119; 101; 98; 97; 117; 116; 104; 110; 46; 103; 101; 116; 34; 44; 34; 99; 104; 97; 108; 108; 101; 110; 103; 101; 34; 58; 34; 65; 81; 74; 106; 97; 71; 70; 115; 98; 71; 86; 117; 90; 50; 85; 116; 89; 110; 108; 48; 90; 88; 77; 116; 77; 68; 69; 121; 77; 122; 81; 49; 78; 106; 99; 52; 79; 87; 70; 105; 89; 50; 82; 108; 90; 103; 34; 44; 34; 111; 114; 105; 103; 105; 110; 34; 58; 34; 104; 116; 116; 112; 115; 58; 47; 47; 101; 120; 97; 109; 112; 108; 101; 46; 99; 111; 109; 34; 125].
Definition ex_ad : bytes := [163; 121; 166; 246; 238; 175; 185; 165; 94; 55; 140; 17; 128; 52; 226; 117; 30; 104; 47; 171; 159; 45; 48; 171; 19; 210; 18; 85; 134; 206; 25; 71; 29; 0; 0; 0; 77].
Definition ex_sig : bytes := [48; 68; 2; 32; 102; 30; 221; 64; 216; 12; 41; 226; 39; 20; 95; 55; 137; 201; 96; 230; 85; 156; 4; 64; 7; 9; 152; 128; 208; 47; 1; 163; 1; 100; 164; 151; 2; 32; 14; 105; 233; 205; 245; 17; 102; 213; 60; 158; 27; 191; 128; 11; 206; 165; 125; 148; 193; 145; 9; 19; 12; 60; 131; 164; 174; 166; 63; 52; 188; 151].
Definition ex_key : bytes := [165; 1; 2; 3; 38; 32; 1; 33; 88; 32; 145; 113; 129; 57; 236; 139; 221; 14; 129; 254; 112; 66; 87; 199; 4; 242; 204; 164; 228; 34; 100; 181; 19; 125; 77; 50; 133; 194; 221; 94; 128; 22; 34; 88; 32; 54; 201; 248; 82; 13; 7; 47; 238; 145; 156; 229; 40; 220; 116; 166; 136; 125; 139; 218; 210; 126; 44; 250; 111; 201; 213; 79; 24; 76; 53; 238; 117].
Definition ex_rp_utf8 : bytes := [101; 120; 97; 109; 112; 108; 101; 46; 99; 111; 109].
Definition ex_h_rp : bytes := [163; 121; 166; 246; 238; 175; 185; 165; 94; 55; 140; 17; 128; 52; 226; 117; 30; 104; 47; 171; 159; 45; 48; 171; 19; 210; 18; 85; 134; 206; 25; 71].
Definition ex_h_cd : bytes := [17; 29; 221; 171; 36; 124; 0; 251; 46; 100; 172; 231; 33; 166; 61; 167; 127; 28; 56; 63; 55; 54; 57; 131; 37; 174; 123; 222; 15; 250; 31; 200].
Definition ex_pk : pubkey := PkEC 1 65785908649800517095211017891818758657162378991944195450793502075101850271766 24781743928698487436852760387411128154453971484061229887146031427174087913077.
Definition ex_cd_json : json := (JObj [([116; 121; 112; 101], (JStr [119; 101; 98; 97; 117; 116; 104; 110; 46; 103; 101; 116])); ([99; 104; 97; 108; 108; 101; 110; 103; 101], (JStr [65; 81; 74; 106; 97; 71; 70; 115; 98; 71; 86; 117; 90; 50; 85; 116; 89; 110; 108; 48; 90; 88; 77; 116; 77; 68; 69; 121; 77; 122; 81; 49; 78; 106; 99; 52; 79; 87; 70; 105; 89; 50; 82; 108; 90; 103])); ([111; 114; 105; 103; 105; 110], (JStr [104; 116; 116; 112; 115; 58; 47; 47; 101; 120; 97; 109; 112; 108; 101; 46; 99; 111; 109]))]).
Definition pk_eqb (a b : pubkey) : bool := match a, b with PkEC c x y, PkEC c' x' y' => (c =? c') && (x =? x') && (y =? y') | _, _ => false end.
Definition ex_oracles : oracles := {|
  o_hash := fun h d => if bytes_eqb d ex_rp_utf8 then ex_h_rp else if bytes_eqb d ex_cdj then ex_h_cd else [];
  o_json_loads := fun is_text d => if negb is_text && bytes_eqb d ex_cdj then JOk ex_cd_json else JDecodeError;
  o_key_ok := fun k => pk_eqb k ex_pk;
  o_verify := fun k sch s m => pk_eqb k ex_pk && scheme_eqb sch (ECDSA SHA256) && bytes_eqb s ex_sig && bytes_eqb m (ex_ad ++ ex_h_cd);
  o_spki := fun _ => [];
  o_cert := fun _ => None;
  o_chain := fun _ _ _ => ChainInvalid |}.
Definition ex_policy : auth_policy := {| ap_challenge := [1; 2; 99; 104; 97; 108; 108; 101; 110; 103; 101; 45; 98; 121; 116; 101; 115; 45; 48; 49; 50; 51; 52; 53; 54; 55; 56; 57; 97; 98; 99; 100; 101; 102]; ap_rp_id := [101; 120; 97; 109; 112; 108; 101; 46; 99; 111; 109]; ap_origin := OSingle [104; 116; 116; 112; 115; 58; 47; 47; 101; 120; 97; 109; 112; 108; 101; 46; 99; 111; 109];
  ap_pubkey := ex_key; ap_count := 76; ap_require_uv := true |}.
Definition ex_cred : auth_cred := {| acr_id := [89; 51; 74; 108; 90; 71; 86; 117; 100; 71; 108; 104; 98; 67; 49; 112; 90; 67; 48; 120]; acr_raw_id := [99; 114; 101; 100; 101; 110; 116; 105; 97; 108; 45; 105; 100; 45; 49]; acr_type := public_key_s;
  acr_client_data := ex_cdj; acr_auth_data := ex_ad; acr_signature := ex_sig; acr_user_handle := None; acr_attachment := None |}.
Definition ex_result : verified_auth := {| va_cred_id := [99; 114; 101; 100; 101; 110; 116; 105; 97; 108; 45; 105; 100; 45; 49]; va_new_count := 77; va_multi_device := true; va_backed_up := true; va_uv := true |}.
Example auth_example_accepted : verify_auth ex_oracles ex_policy (InRec ex_cred) = Ok ex_result.
Proof. vm_compute. reflexivity. Qed.
Example auth_example_meets_the_spec : AuthAccepted ex_oracles ex_policy ex_cred ex_result.
Proof. apply verify_auth_rec_sound. exact auth_example_accepted. Qed.
(* the same assertion against a stored counter that has caught up is refused: the premises of C07 are met by a real case *)
Example auth_example_replay_rejected : is_ok (verify_auth ex_oracles (with_count ex_policy 77) (InRec ex_cred)) = false.
Proof. vm_compute. reflexivity. Qed.
(* and with one byte of the challenge changed in the policy *)
Example auth_example_other_challenge_rejected :
  verify_auth ex_oracles {| ap_challenge := [0; 2; 99; 104; 97; 108; 108; 101; 110; 103; 101; 45; 98; 121; 116; 101; 115; 45; 48; 49; 50; 51; 52; 53; 54; 55; 56; 57; 97; 98; 99; 100; 101; 102]; ap_rp_id := ap_rp_id ex_policy; ap_origin := ap_origin ex_policy; ap_pubkey := ex_key; ap_count := 76; ap_require_uv := true |} (InRec ex_cred)
  = Err (Lib InvalidAuthenticationResponse).
Proof. vm_compute. reflexivity. Qed.

Definition rx_cdj : bytes := [123; 34; 116; 121; 112; 101; 34; 58; 34; 119; 101; 98; 97; 117; 116; 104; 110; 46; 99; 114; 101; 97; 116; 101; 34; 44; 34; 99; 104; 97; 108; 108; 101; 110; 103; 101; 34; 58; 34; 66; 51; 74; 108; 90; 50; 108; 122; 100; 72; 74; 104; 100; 71; 108; 118; 98; 105; 49; 106; 97; 71; 70; 115; 98; 71; 86; 117; 90; 50; 85; 116; 77; 68; 69; 121; 77; 122; 81; 49; 78; 106; 99; 52; 79; 81; 34; 44; 34; 111; 114; 105; 103; 105; 110; 34; 58; 34; 104; 116; 116; 112; 115; 58; 47; 47; 101; 120; 97; 109; 112; 108; 101; 46; 99; 111; 109; 34; 125].
Definition rx_ao : bytes := [163; 99; 102; 109; 116; 100; 110; 111; 110; 101; 103; 97; 116; 116; 83; 116; 109; 116; 160; 104; 97; 117; 116; 104; 68; 97; 116; 97; 88; 149; 163; 121; 166; 246; 238; 175; 185; 165; 94; 55; 140; 17; 128; 52; 226; 117; 30; 104; 47; 171; 159; 45; 48; 171; 19; 210; 18; 85; 134; 206; 25; 71; 69; 0; 0; 0; 5; 0; 1; 2; 3; 4; 5; 6; 7; 8; 9; 10; 11; 12; 13; 14; 15; 0; 17; 114; 101; 103; 45; 99; 114; 101; 100; 101; 110; 116; 105; 97; 108; 45; 105; 100; 165; 1; 2; 3; 38; 32; 1; 33; 88; 32; 145; 113; 129; 57; 236; 139; 221; 14; 129; 254; 112; 66; 87; 199; 4; 242; 204; 164; 228; 34; 100; 181; 19; 125; 77; 50; 133; 194; 221; 94; 128; 22; 34; 88; 32; 54; 201; 248; 82; 13; 7; 47; 238; 145; 156; 229; 40; 220; 116; 166; 136; 125; 139; 218; 210; 126; 44; 250; 111; 201; 213; 79; 24; 76; 53; 238; 117].
Definition rx_cd_json : json := (JObj [([116; 121; 112; 101], (JStr [119; 101; 98; 97; 117; 116; 104; 110; 46; 99; 114; 101; 97; 116; 101])); ([99; 104; 97; 108; 108; 101; 110; 103; 101], (JStr [66; 51; 74; 108; 90; 50; 108; 122; 100; 72; 74; 104; 100; 71; 108; 118; 98; 105; 49; 106; 97; 71; 70; 115; 98; 71; 86; 117; 90; 50; 85; 116; 77; 68; 69; 121; 77; 122; 81; 49; 78; 106; 99; 52; 79; 81])); ([111; 114; 105; 103; 105; 110], (JStr [104; 116; 116; 112; 115; 58; 47; 47; 101; 120; 97; 109; 112; 108; 101; 46; 99; 111; 109]))]).
Definition rx_h_rp : bytes := [163; 121; 166; 246; 238; 175; 185; 165; 94; 55; 140; 17; 128; 52; 226; 117; 30; 104; 47; 171; 159; 45; 48; 171; 19; 210; 18; 85; 134; 206; 25; 71].
Definition rx_oracles : oracles := {|
  o_hash := fun h d => if bytes_eqb d ex_rp_utf8 then rx_h_rp else [];
  o_json_loads := fun is_text d => if negb is_text && bytes_eqb d rx_cdj then JOk rx_cd_json else JDecodeError;
  o_key_ok := fun _ => true; o_verify := fun _ _ _ _ => false; o_spki := fun _ => []; o_cert := fun _ => None;
  o_chain := fun _ _ _ => ChainInvalid |}.
Definition rx_policy : reg_policy := {| rp_challenge := [7; 114; 101; 103; 105; 115; 116; 114; 97; 116; 105; 111; 110; 45; 99; 104; 97; 108; 108; 101; 110; 103; 101; 45; 48; 49; 50; 51; 52; 53; 54; 55; 56; 57]; rp_rp_id := [101; 120; 97; 109; 112; 108; 101; 46; 99; 111; 109]; rp_origin := OSingle [104; 116; 116; 112; 115; 58; 47; 47; 101; 120; 97; 109; 112; 108; 101; 46; 99; 111; 109];
  rp_require_up := true; rp_require_uv := false; rp_algs := [-7; -8; -36; -37; -38; -39; -257; -258; -259]; rp_roots := [];
  rp_builtin_apple := []; rp_builtin_android_key := []; rp_builtin_safetynet := []; rp_now := 0 |}.
Definition rx_cred : reg_cred := {| rcr_id := [99; 109; 86; 110; 76; 87; 78; 121; 90; 87; 82; 108; 98; 110; 82; 112; 89; 87; 119; 116; 97; 87; 81]; rcr_raw_id := [114; 101; 103; 45; 99; 114; 101; 100; 101; 110; 116; 105; 97; 108; 45; 105; 100]; rcr_type := public_key_s;
  rcr_client_data := rx_cdj; rcr_att_obj := rx_ao; rcr_transports := None; rcr_attachment := None |}.
Example reg_example_accepted : is_ok (verify_reg rx_oracles rx_policy (InRec rx_cred)) = true.
Proof. vm_compute. reflexivity. Qed.
Example reg_example_fields : match verify_reg rx_oracles rx_policy (InRec rx_cred) with
  | Ok r => vr_cred_id r = [114; 101; 103; 45; 99; 114; 101; 100; 101; 110; 116; 105; 97; 108; 45; 105; 100] /\ vr_count r = 5 /\ vr_aaguid r = [48; 48; 48; 49; 48; 50; 48; 51; 45; 48; 52; 48; 53; 45; 48; 54; 48; 55; 45; 48; 56; 48; 57; 45; 48; 97; 48; 98; 48; 99; 48; 100; 48; 101; 48; 102] /\ vr_fmt r = [110; 111; 110; 101]
            /\ vr_pubkey r = [165; 1; 2; 3; 38; 32; 1; 33; 88; 32; 145; 113; 129; 57; 236; 139; 221; 14; 129; 254; 112; 66; 87; 199; 4; 242; 204; 164; 228; 34; 100; 181; 19; 125; 77; 50; 133; 194; 221; 94; 128; 22; 34; 88; 32; 54; 201; 248; 82; 13; 7; 47; 238; 145; 156; 229; 40; 220; 116; 166; 136; 125; 139; 218; 210; 126; 44; 250; 111; 201; 213; 79; 24; 76; 53; 238; 117] /\ vr_uv r = true
  | Err _ => False end.
Proof. vm_compute. repeat split. Qed.
Example reg_example_meets_the_spec : exists r, RegAccepted rx_oracles rx_policy rx_cred r.
Proof. destruct (verify_reg_rec rx_oracles rx_policy rx_cred) as [r|e] eqn:E; [exists r; apply verify_reg_rec_sound; exact E|].
  exfalso. assert (H : is_ok (verify_reg_rec rx_oracles rx_policy rx_cred) = true) by (vm_compute; reflexivity). rewrite E in H. discriminate. Qed.
