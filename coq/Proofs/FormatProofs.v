From Coq Require Import ZArith List Bool Lia String ZifyBool.
From PW Require Import Model.Base Model.SigTypes Model.Json Model.Base64 Model.Cbor Model.AuthData
  Model.Oracles Model.Cose Model.SigAlg Model.Tpm Model.Formats Generated.Constants Spec.FormatSpec
  Proofs.Tactics Proofs.RegProofs.
Import ListNotations.
Open Scope Z_scope.

Lemma ALG_ES256_val : ALG_ES256 = -7. Proof. vm_compute. reflexivity. Qed.
Lemma CRV_P256_val : CRV_P256 = 1. Proof. vm_compute. reflexivity. Qed.
Lemma ALG_RS256_val : ALG_RS256 = -257. Proof. vm_compute. reflexivity. Qed.

Lemma negb_unset f : negb (unset f) = true -> unset f = false.
Proof. destruct (unset f); cbn; [discriminate|reflexivity]. Qed.

Lemma chain_or_irr_ok r : chain_or_irr r = Ok tt -> r = Ok tt.
Proof. unfold chain_or_irr, IRR. destruct r as [[]|[[]| |]]; cbn; intros; try discriminate; reflexivity. Qed.

Lemma verify_or_irr_ok O k alg sg msg : verify_or_irr O k alg sg msg = Ok tt -> Signed O k alg sg msg.
Proof.
  unfold verify_or_irr, Signed. intros H. apply bind_ok in H as [b [E H]]. apply need_ok in H. subst. exact E.
Qed.

Ltac fix_chain :=
  repeat match goal with
  | E : chain_or_irr _ = Ok ?u |- _ => destruct u; apply chain_or_irr_ok in E
  | E : verify_or_irr _ _ _ _ _ = Ok ?u |- _ => destruct u; apply verify_or_irr_ok in E
  | E : need _ = Ok ?u |- _ => destruct u; apply need_ok in E
  end.

Theorem verify_packed_sound O now st ad cdj pk roots :
  verify_packed O now st ad cdj pk roots = Ok tt -> PackedOk O now st ad cdj pk roots.
Proof.
  unfold verify_packed. intros H. inv_bind' H.
  apply negb_unset in G, G0.
  destruct (negb (unset (st_x5c st))) eqn:Ex.
  - apply negb_unset in Ex. inv_bind' H. fix_chain.
    constructor; auto. left. split; [exact Ex|]. eauto 10.
  - apply negb_false_iff in Ex. inv_bind' H. fix_chain.
    constructor; auto. right. split; [exact Ex|].
    match goal with E : cbor_py_eq _ _ = Ok ?b, G : ?b = true |- _ => subst b end. eauto 10.
Qed.

Lemma x5c_single v x5c : x5c_list v = Ok x5c -> negb (1 <? len x5c) = true -> x5c <> [] -> exists d, x5c = [d].
Proof.
  intros _ H Hne. destruct x5c as [|d [|e r]]; [congruence|eauto|].
  exfalso. apply negb_true_iff, Z.ltb_ge in H. unfold len in H. cbn [Datatypes.length] in H. lia.
Qed.

Lemma unset_x5c_nonempty st x5c : unset (st_x5c st) = false -> x5c_list (fld (st_x5c st)) = Ok x5c -> x5c <> [].
Proof.
  unfold unset, fld, x5c_list. destruct (st_x5c st) as [v|]; [|discriminate].
  destruct v as [| | |l| | | |]; try discriminate. cbn. destruct l; [discriminate|].
  cbn [all_bytes]. destruct c; try discriminate. destruct (all_bytes l); [|discriminate]. intros _ [= <-]. discriminate.
Qed.

Theorem verify_fido_u2f_sound O now st cdj rph cid pk aaguid roots :
  verify_fido_u2f O now st cdj rph cid pk aaguid roots = Ok tt -> U2fOk O now st cdj rph cid pk aaguid roots.
Proof.
  unfold verify_fido_u2f. intros H.
  apply bind_need_ok in H as [G H]. apply bind_need_ok in H as [G0 H].
  apply bind_ok in H as [x5c [E H]]. apply bind_need_ok in H as [G1 H].
  apply bind_ok in H as [u [Ech H]]. destruct u. apply chain_or_irr_ok in Ech.
  apply bind_ok in H as [ag [Eag H]]. apply bind_need_ok in H as [G2 H].
  apply bind_ok in H as [c [Ec H]].
  apply negb_unset in G, G0. apply str_eqb_eq in G2. subst ag.
  destruct (x5c_single _ _ E G1 (unset_x5c_nonempty _ _ G0 E)) as [d ->].
  destruct (c_key c) as [crv x y| | |] eqn:Ek; try discriminate.
  apply bind_need_ok in H as [G3 H]. apply Z.eqb_eq in G3. subst crv.
  apply bind_ok in H as [dk [Edk H]].
  destruct dk as [|alg kcrv kx ky|]; try discriminate.
  apply bind_need_ok in H as [G4 H]. apply andb_true_iff in G4 as [Ga Gc].
  apply bind_ok in H as [xb [Ex H]]. apply bind_ok in H as [yb [Ey H]].
  unfold as_bytes in Ex, Ey. destruct kx; try discriminate. destruct ky; try discriminate.
  injection Ex as <-. injection Ey as <-.
  apply verify_or_irr_ok in H. rewrite ALG_ES256_val in *. rewrite CRV_P256_val in *. rewrite <- Ek in H.
  constructor; [exact G| |exact Eag].
  exists d, c. repeat split; auto.
  - exists x, y. exact Ek.
  - exists alg, kcrv, b, b0. repeat split; auto.
Qed.

(* ---------------- TPM ---------------- *)
Lemma nil_negb {A} (l : list A) : negb (match l with [] => true | _ => false end) = true -> l <> [].
Proof. destruct l; cbn; congruence. Qed.

Theorem check_aik_cert_sound c : check_aik_cert c = Ok tt -> AikOk c.
Proof.
  unfold check_aik_cert. intros H.
  apply bind_need_ok in H as [G H]. apply bind_need_ok in H as [G0 H].
  destruct (c_san c) as [| | |attrs] eqn:Es; try discriminate.
  apply bind_need_ok in H as [G1 H]. apply bind_need_ok in H as [G2 H].
  destruct (c_eku c) as [[|o rest]|] eqn:Ee; try discriminate.
  apply bind_need_ok in H as [G3 H].
  destruct (c_basic_ca c) as [ca|] eqn:Eb; try discriminate.
  apply need_ok in H.
  apply andb_true_iff in G1 as [G1 G1c]. apply andb_true_iff in G1 as [G1a G1b].
  constructor.
  - apply Z.eqb_eq, G.
  - apply negb_true_iff, Z.ltb_ge in G0. exact G0.
  - exists attrs. repeat split; auto; apply nil_negb; assumption.
  - exists rest. apply str_eqb_eq in G3. subst o. exact Ee.
  - destruct ca; [discriminate|exact Eb].
Qed.

Lemma as_bytes_stmt_ok v b : as_bytes_stmt v = Ok b -> v = CBytes b.
Proof. destruct v; cbn; try discriminate. intros [= ->]. reflexivity. Qed.
Lemma as_bytes_ok v b : as_bytes v = Ok b -> v = CBytes b.
Proof. destruct v; cbn; try discriminate. intros [= ->]. reflexivity. Qed.
Lemma cbor_eq_text_ok v s : cbor_eq_text v s = true -> v = CText s.
Proof. destruct v; cbn; try discriminate. intros H. apply bytes_eqb_eq in H. subst. reflexivity. Qed.

Theorem verify_tpm_sound O now st ad cdj pk roots :
  verify_tpm O now st ad cdj pk roots = Ok tt -> TpmOk O now st ad cdj pk roots.
Proof.
  unfold verify_tpm. intros H.
  apply bind_need_ok in H as [M1 H]. apply bind_need_ok in H as [M2 H]. apply bind_need_ok in H as [M3 H].
  apply bind_need_ok in H as [M4 H]. apply bind_need_ok in H as [M5 H].
  apply negb_unset in M1, M2, M3, M4, M5.
  apply bind_need_ok in H as [Gv H]. apply cbor_eq_text_ok in Gv.
  apply bind_ok in H as [x5c [Ex H]].
  apply bind_ok in H as [u [Ech H]]. destruct u. apply chain_or_irr_ok in Ech.
  apply bind_ok in H as [pa_raw [Epr H]]. apply as_bytes_stmt_ok in Epr.
  apply bind_ok in H as [ci_raw [Ecr H]]. apply as_bytes_stmt_ok in Ecr.
  apply bind_ok in H as [pa [Epa H]]. apply bind_ok in H as [dk [Edk H]].
  apply bind_ok in H as [u [Ekey H]]. destruct u.
  apply bind_ok in H as [ci [Eci H]].
  apply bind_need_ok in H as [Gm H]. apply Z.eqb_eq in Gm.
  apply bind_need_ok in H as [Ge H]. apply bytes_eqb_eq in Ge.
  apply bind_ok in H as [ph [Eph H]].
  apply bind_need_ok in H as [Gna H]. apply String.eqb_eq in Gna.
  apply bind_need_ok in H as [Gn H]. apply bytes_eqb_eq in Gn.
  apply bind_ok in H as [c [Ec H]].
  apply bind_ok in H as [u [Esig H]]. destruct u. apply verify_or_irr_ok in Esig.
  constructor; [exact Gv|auto|].
  exists x5c, pa_raw, ci_raw, pa, dk, ci, c, ph.
  repeat split; auto.
  (* key equality *)
  destruct (pa_params pa) as [sym sch kb expo|sym sch crv kdf]; destruct dk as [a0 c0 x0|a0 c0 x0 y0|a0 n0 e0]; try discriminate.
  - apply bind_need_ok in Ekey as [Gn0 Ekey]. destruct n0; try discriminate. apply bytes_eqb_eq in Gn0.
    apply bind_ok in Ekey as [eb [Eeb Ekey]]. apply as_bytes_ok in Eeb. subst e0.
    apply need_ok in Ekey. apply Z.eqb_eq in Ekey. split; [exact Gn0|exact Ekey].
  - apply bind_ok in Ekey as [xb [Exb Ekey]]. apply as_bytes_ok in Exb. subst x0.
    apply bind_ok in Ekey as [yb [Eyb Ekey]]. apply as_bytes_ok in Eyb. subst y0.
    apply bind_need_ok in Ekey as [Gu Ekey]. apply bytes_eqb_eq in Gu.
    destruct (str_assoc tpm_curve_cose_map crv) as [cc|] eqn:Ecc; [|discriminate].
    apply need_ok in Ekey. split; [exact Gu|]. exists cc. auto.
Qed.

(* ---------------- apple ---------------- *)
Theorem verify_apple_sound O now st ad cdj pk roots builtin :
  verify_apple O now st ad cdj pk roots builtin = Ok tt -> AppleOk O now st ad cdj pk roots builtin.
Proof.
  unfold verify_apple. intros H.
  apply bind_need_ok in H as [G H].
  apply bind_ok in H as [x5c [Ex H]].
  apply bind_ok in H as [u [Ech H]]. destruct u. apply chain_or_irr_ok in Ech.
  apply bind_ok in H as [c [Ec H]].
  destruct (c_apple_ext c) as [v|] eqn:Ev; [|discriminate].
  apply bind_need_ok in H as [Gn H]. apply bytes_eqb_eq in Gn.
  apply bind_ok in H as [dk [Edk H]]. apply bind_ok in H as [pkk [Epk H]].
  apply need_ok in H. apply bytes_eqb_eq in H.
  constructor; [apply negb_unset, G|]. exists x5c, c, v, dk, pkk. repeat split; auto.
Qed.

(* ---------------- android-key ---------------- *)
Lemma existsb_bytes_In x l : existsb (bytes_eqb x) l = true -> In x l.
Proof.
  intros H. apply existsb_exists in H as (y & Hin & Hy). apply bytes_eqb_eq in Hy. subst. exact Hin.
Qed.

Lemma purpose_ok (o : option (list Z)) : match o with Some [2] => true | _ => false end = true -> o = Some [2].
Proof.
  destruct o as [[|p l]|]; try discriminate. destruct p as [|p|p]; try discriminate.
  destruct p as [p|p|]; try discriminate. destruct p as [p|p|]; try discriminate.
  destruct l; [reflexivity|discriminate].
Qed.

Theorem verify_android_key_sound O now st ad cdj pk roots builtin :
  verify_android_key O now st ad cdj pk roots builtin = Ok tt -> AndroidKeyOk O now st ad cdj pk roots builtin.
Proof.
  unfold verify_android_key. intros H.
  apply bind_need_ok in H as [M1 H]. apply bind_need_ok in H as [M2 H]. apply bind_need_ok in H as [M3 H].
  apply negb_unset in M1, M2, M3.
  apply bind_ok in H as [x5c [Ex H]].
  apply bind_ok in H as [rootc [Er H]].
  apply bind_ok in H as [u [Ech H]]. destruct u. apply chain_or_irr_ok in Ech.
  apply bind_need_ok in H as [Gin H]. apply existsb_bytes_In in Gin.
  apply bind_ok in H as [c [Ec H]].
  apply bind_ok in H as [u [Esig H]]. destruct u. apply verify_or_irr_ok in Esig.
  apply bind_ok in H as [dk [Edk H]]. apply bind_ok in H as [pkk [Epk H]].
  apply bind_need_ok in H as [Gs H]. apply bytes_eqb_eq in Gs.
  destruct (c_android_ext c) as [[kd|]|] eqn:Ea; try discriminate.
  apply bind_need_ok in H as [Gc H]. apply bytes_eqb_eq in Gc.
  apply bind_need_ok in H as [Gsw H]. apply bind_need_ok in H as [Gtee H].
  apply bind_need_ok in H as [Go H]. apply need_ok in H.
  constructor; [auto|]. exists x5c, rootc, c, dk, pkk, kd. repeat split; auto.
  - destruct (kd_sw_all_apps kd); [discriminate|reflexivity].
  - destruct (kd_tee_all_apps kd); [discriminate|reflexivity].
  - destruct (kd_tee_origin kd) as [[| |]|]; try discriminate. reflexivity.
  - apply purpose_ok. exact H.
Qed.

(* ---------------- android-safetynet ---------------- *)
Theorem verify_safetynet_sound O now st ad cdj roots builtin :
  verify_safetynet O now st ad cdj roots builtin = Ok tt -> SafetyNetOk O now st ad cdj roots builtin.
Proof.
  unfold verify_safetynet. intros H.
  apply bind_need_ok in H as [G H]. apply bind_need_ok in H as [G0 H].
  destruct (fld (st_response st)) as [|resp| | | | | |] eqn:Er; try discriminate.
  destruct (is_ascii resp) eqn:Easc; cbn [negb] in H; [|discriminate].
  destruct (split_dot resp []) as [|p0 [|p1 [|p2 [|p3 r]]]] eqn:Es; try discriminate.
  apply bind_ok in H as [hb [Ehb H]]. apply bind_ok in H as [hj [Ehj H]].
  apply bind_ok in H as [pb [Epb H]]. apply bind_ok in H as [pj [Epj H]].
  apply bind_need_ok in H as [Gn H].
  apply bind_ok in H as [x5c_txt [Ext H]]. apply bind_ok in H as [x5c [Ex H]].
  apply bind_need_ok in H as [Gb H].
  apply bind_ok in H as [ts [Ets H]].
  apply bind_need_ok in H as [Gt H].
  apply bind_ok in H as [c [Ec H]].
  destruct (c_subject_cns c) as [|cn cns] eqn:Ecn; [discriminate|].
  apply bind_need_ok in H as [Gcn H]. apply str_eqb_eq in Gcn.
  apply bind_ok in H as [u [Ech H]]. destruct u. apply chain_or_irr_ok in Ech.
  apply bind_ok in H as [sg [Esg H]].
  apply bind_need_ok in H as [Ga H].
  apply verify_or_irr_ok in H. rewrite ALG_RS256_val in H.
  apply negb_unset in G, G0.
  constructor; [auto|]. exists resp, p0, p1, p2, hb, hj, pb, pj, x5c_txt, x5c, c, sg, ts, cn, cns.
  destruct x5c as [|d x5c']; [discriminate|]. cbn [hd_bytes].
  repeat split; auto; try discriminate.
  - apply AuthProofs.jstr_is_eq in Gn. exact Gn.
  - destruct (jget pj (s2l "basicIntegrity")) as [v|]; [exists v; auto|discriminate].
  - destruct (jget hj (s2l "alg")) as [v|]; cbn in Ga.
    + apply AuthProofs.jstr_is_eq in Ga. subst v. reflexivity.
    + discriminate.
Qed.
