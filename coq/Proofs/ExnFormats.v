(* C19 for the six signed attestation formats: on a structurally well-formed statement (members of the right
   CBOR type, certificates that load, a credential key that decodes, sub-structures that parse) every verifier
   answers Ok or a LIBRARY exception - the glue between the checks introduces no other failure. *)
From Coq Require Import ZArith List Bool Lia String.
From PW Require Import Model.Base Model.SigTypes Model.Json Model.Base64 Model.Utf8 Model.Cbor Model.AuthData
  Model.Oracles Model.ClientData Model.CredJson Model.Cose Model.SigAlg Model.Tpm Model.Formats Model.VerifyAuth Model.VerifyReg
  Generated.Constants Proofs.Tactics Proofs.SigProofs Proofs.ExnProofs.
Import ListNotations.
Open Scope Z_scope.

Lemma lob_fneed {B} c (k : unit -> res B) : lib_or_ok (k tt) -> lib_or_ok (bind (Formats.need c) k).
Proof. unfold Formats.need. apply lob_guard. Qed.
Lemma lob_fneed_last c : lib_or_ok (Formats.need c).
Proof. unfold Formats.need, guard. destruct c; exact I. Qed.
Lemma lob_irr {A} : lib_or_ok (@IRR A).
Proof. exact I. Qed.

Definition chain_wf (O : oracles) (now : Z) (x5c roots : list bytes) : Prop := o_chain O now x5c roots <> ChainOtherError.

Lemma chain_lob O now x5c roots : chain_wf O now x5c roots -> lib_or_ok (chain_or_irr (validate_chain O now x5c roots)).
Proof.
  unfold chain_wf, validate_chain, chain_or_irr. intros H. destruct roots as [|r0 roots]; [exact I|]. destruct x5c as [|d0 x5c]; [exact I|].
  destruct (o_chain O now (d0 :: x5c) (r0 :: roots)); try exact I. congruence.
Qed.

Lemma verify_or_irr_lob O k alg s msg : lib_or_ok (verify_or_irr O k alg (CBytes s) msg).
Proof.
  unfold verify_or_irr. apply lob_bind; [apply verify_signature_lob|]. intros b _. apply lob_fneed_last.
Qed.

(* the credential key as the verifiers use it *)
Record key_wf (O : oracles) (cred_pk : bytes) : Prop := {
  kw_decode : lib_or_ok (decode_credential_public_key cred_pk);
  kw_crypto : forall dk, decode_credential_public_key cred_pk = Ok dk -> lib_or_ok (to_crypto O dk);
  kw_bytes : forall dk, decode_credential_public_key cred_pk = Ok dk ->
      match dk with
      | DEC2 _ _ x y => (exists xb, x = CBytes xb) /\ (exists yb, y = CBytes yb)
      | DRSA _ _ e => exists eb, e = CBytes eb
      | _ => True
      end }.

Definition sig_wf (st : att_stmt) : Prop := unset (st_sig st) = false -> exists s, fld (st_sig st) = CBytes s.
Definition x5c_wf (O : oracles) (st : att_stmt) (P : list bytes -> Prop) : Prop :=
  unset (st_x5c st) = false -> exists l, x5c_list (fld (st_x5c st)) = Ok l /\ P l.

(* ---------------- packed ---------------- *)
Record packed_wf (O : oracles) (now : Z) (st : att_stmt) (cred_pk : bytes) (roots : list bytes) : Prop := {
  pw_sig : sig_wf st;
  pw_x5c : x5c_wf O st (fun l => chain_wf O now l roots /\ exists c, load_cert O (hd_bytes l) = Ok c);
  pw_key : key_wf O cred_pk;
  pw_alg : forall dk, decode_credential_public_key cred_pk = Ok dk -> lib_or_ok (cbor_py_eq (dk_alg dk) (fld (st_alg st))) }.

Lemma negb_unset_true f : negb (unset f) = true -> unset f = false.
Proof. destruct (unset f); [discriminate|reflexivity]. Qed.

Ltac need_step H := 
  match goal with |- lib_or_ok (bind (Formats.need ?c) _) =>
    destruct c eqn:H; [cbn [Formats.need guard bind]|exact I] end.

Theorem packed_lob O now st ad cdj pk roots : packed_wf O now st pk roots -> lib_or_ok (verify_packed O now st ad cdj pk roots).
Proof.
  intros [Hs Hx [Kd Kc Kb] Ha]. unfold verify_packed.
  need_step G1. need_step G2. apply negb_unset_true in G1. destruct (Hs G1) as [s Es].
  destruct (negb (unset (st_x5c st))) eqn:Ex.
  - apply negb_unset_true in Ex. destruct (Hx Ex) as (l & El & Hc & c & Ec). rewrite El. cbn [bind].
    apply lob_bind; [apply chain_lob, Hc|intros u _]. rewrite Ec. cbn [bind]. rewrite Es. apply verify_or_irr_lob.
  - apply lob_bind; [exact Kd|intros dk Edk].
    apply lob_bind; [apply (Ha dk Edk)|intros b _].
    apply lob_fneed. apply lob_bind; [apply (Kc dk Edk)|intros k _]. rewrite Es. apply verify_or_irr_lob.
Qed.

(* ---------------- fido-u2f ---------------- *)
Record u2f_wf (O : oracles) (now : Z) (st : att_stmt) (cred_pk aaguid : bytes) (roots : list bytes) : Prop := {
  uw_sig : sig_wf st;
  uw_x5c : x5c_wf O st (fun l => chain_wf O now l roots /\ exists c, load_cert O (hd_bytes l) = Ok c);
  uw_key : key_wf O cred_pk;
  uw_aaguid : len aaguid = 16 }.

Theorem u2f_lob O now st cdj rph cid pk aaguid roots :
  u2f_wf O now st pk aaguid roots -> lib_or_ok (verify_fido_u2f O now st cdj rph cid pk aaguid roots).
Proof.
  intros [Hs Hx [Kd Kc Kb] Hag]. unfold verify_fido_u2f.
  need_step G1. need_step G2. apply negb_unset_true in G1, G2. destruct (Hs G1) as [s Es].
  destruct (Hx G2) as (l & El & Hc & c & Ec). rewrite El. cbn [bind].
  need_step G3. apply lob_bind; [apply chain_lob, Hc|intros u _].
  apply lob_bind; [apply aaguid_lob_16, Hag|intros ag _]. need_step G4. rewrite Ec. cbn [bind].
  destruct (c_key c) as [crv0 cx cy| | |]; try exact I. need_step G5.
  apply lob_bind; [exact Kd|intros dk Edk]. specialize (Kb dk Edk).
  destruct dk as [| a kc x y |]; try exact I. need_step G6.
  destruct Kb as [[xb ->] [yb ->]]. cbn [as_bytes bind]. rewrite Es. apply verify_or_irr_lob.
Qed.

(* ---------------- tpm ---------------- *)
Definition aik_wf (c : cert) : Prop :=
  c_san c <> SanEmpty /\ c_san c <> SanNotDirectory /\ c_eku c <> Some [].

Lemma check_aik_lob c : aik_wf c -> lib_or_ok (check_aik_cert c).
Proof.
  intros (H1 & H2 & H3). unfold check_aik_cert. need_step G1. need_step G2.
  destruct (c_san c); try exact I; try congruence.
  need_step G3. need_step G4. destruct (c_eku c) as [[|o r]|]; try exact I; try congruence.
  need_step G5. destruct (c_basic_ca c); [apply lob_fneed_last|exact I].
Qed.

Record tpm_wf (O : oracles) (now : Z) (st : att_stmt) (cred_pk : bytes) (roots : list bytes) : Prop := {
  tw_sig : sig_wf st;
  tw_x5c : x5c_wf O st (fun l => chain_wf O now l roots /\ exists c, load_cert O (hd_bytes l) = Ok c /\ aik_wf c);
  tw_pa : unset (st_pub_area st) = false -> exists b, fld (st_pub_area st) = CBytes b /\ lib_or_ok (parse_pub_area b);
  tw_ci : unset (st_cert_info st) = false -> exists b, fld (st_cert_info st) = CBytes b /\ lib_or_ok (parse_cert_info b);
  tw_key : key_wf O cred_pk }.

Theorem tpm_lob O now st ad cdj pk roots : tpm_wf O now st pk roots -> lib_or_ok (verify_tpm O now st ad cdj pk roots).
Proof.
  intros [Hs Hx Hpa Hci [Kd Kc Kb]]. unfold verify_tpm.
  need_step G1. need_step G2. need_step G3. need_step G4. need_step G5. need_step G6.
  apply negb_unset_true in G1, G2, G4, G5.
  destruct (Hs G5) as [s Es]. destruct (Hx G4) as (l & El & Hc & c & Ec & Haik).
  destruct (Hpa G2) as (pab & Epa & Lpa). destruct (Hci G1) as (cib & Eci & Lci).
  rewrite El. cbn [bind]. apply lob_bind; [apply chain_lob, Hc|intros u _].
  rewrite Epa, Eci. cbn [as_bytes_stmt bind].
  apply lob_bind; [exact Lpa|intros pa _]. apply lob_bind; [exact Kd|intros dk Edk]. specialize (Kb dk Edk).
  apply lob_bind.
  { destruct (pa_params pa) as [sym sch kb expo|sym sch crv kdf]; destruct dk as [| a kc x y | a n e]; try exact I.
    - need_step G7. destruct Kb as [eb ->]. cbn [as_bytes bind]. apply lob_fneed_last.
    - destruct Kb as [[xb ->] [yb ->]]. cbn [as_bytes bind]. need_step G7.
      destruct (str_assoc tpm_curve_cose_map crv); [apply lob_fneed_last|exact I]. }
  intros u' _. apply lob_bind; [exact Lci|intros ci _]. need_step G8. cbv zeta. need_step G9.
  apply lob_bind. { unfold tpm_name_hash. destruct (str_assoc tpm_alg_cose_map (pa_name_alg pa)); exact I. }
  intros ph _. need_step G10. need_step G11. rewrite Ec. cbn [bind]. rewrite Es.
  apply lob_bind; [apply verify_or_irr_lob|intros u'' _]. apply check_aik_lob, Haik.
Qed.

(* ---------------- apple ---------------- *)
Record apple_wf (O : oracles) (now : Z) (st : att_stmt) (cred_pk : bytes) (anchors : list bytes) : Prop := {
  aw_x5c : x5c_wf O st (fun l => chain_wf O now l anchors /\ exists c, load_cert O (hd_bytes l) = Ok c);
  aw_key' : key_wf O cred_pk }.

Theorem apple_lob O now st ad cdj pk roots builtin :
  apple_wf O now st pk (roots ++ builtin) -> lib_or_ok (verify_apple O now st ad cdj pk roots builtin).
Proof.
  intros [Hx [Kd Kc Kb]]. unfold verify_apple. need_step G1. apply negb_unset_true in G1.
  destruct (Hx G1) as (l & El & Hc & c & Ec). rewrite El. cbn [bind].
  apply lob_bind; [apply chain_lob, Hc|intros u _]. cbv zeta. rewrite Ec. cbn [bind].
  destruct (c_apple_ext c); [|exact I]. need_step G2.
  apply lob_bind; [exact Kd|intros dk Edk]. apply lob_bind; [apply (Kc dk Edk)|intros k _]. apply lob_fneed_last.
Qed.

(* ---------------- android-key ---------------- *)
Record android_key_wf (O : oracles) (now : Z) (st : att_stmt) (cred_pk : bytes) : Prop := {
  kw_sig : sig_wf st;
  kw_x5c : x5c_wf O st (fun l => exists rootc c, load_cert O (last_bytes l) = Ok rootc /\
               chain_wf O now (removelast l) [c_pem rootc] /\ load_cert O (hd_bytes l) = Ok c /\ c_android_ext c <> Some None);
  kw_key : key_wf O cred_pk }.

Theorem android_key_lob O now st ad cdj pk roots builtin :
  android_key_wf O now st pk -> lib_or_ok (verify_android_key O now st ad cdj pk roots builtin).
Proof.
  intros [Hs Hx [Kd Kc Kb]]. unfold verify_android_key.
  need_step G1. need_step G2. need_step G3. apply negb_unset_true in G1, G3.
  destruct (Hs G1) as [s Es]. destruct (Hx G3) as (l & El & rootc & c & Er & Hc & Ec & Hext).
  rewrite El. cbn [bind]. cbv zeta. rewrite Er. cbn [bind].
  apply lob_bind; [apply chain_lob, Hc|intros u _]. need_step G4. rewrite Ec. cbn [bind]. rewrite Es.
  apply lob_bind; [apply verify_or_irr_lob|intros u' _].
  apply lob_bind; [exact Kd|intros dk Edk]. apply lob_bind; [apply (Kc dk Edk)|intros k _]. need_step G5.
  destruct (c_android_ext c) as [[kd|]|]; try exact I; try congruence.
  need_step G6. need_step G7. need_step G8. need_step G9. apply lob_fneed_last.
Qed.

(* ---------------- android-safetynet ---------------- *)
Record safetynet_wf (O : oracles) (now : Z) (st : att_stmt) (anchors : list bytes) : Prop := {
  sw_resp : unset (st_response st) = false -> exists resp, fld (st_response st) = CBytes resp /\ is_ascii resp = true /\
    forall p0 p1 p2, split_dot resp [] = [p0; p1; p2] ->
      exists hb hj pb pj txt d rest ts c sg,
        b64url_dec p0 = Ok hb /\ loads_obj O hb = Ok hj /\ b64url_dec p1 = Ok pb /\ loads_obj O pb = Ok pj /\
        sn_x5c_txt hj = Ok txt /\ map_res b64url_dec txt = Ok (d :: rest) /\ sn_timestamp pj = Ok ts /\
        load_cert O d = Ok c /\ c_subject_cns c <> [] /\ chain_wf O now (d :: rest) anchors /\ b64url_dec p2 = Ok sg }.

Theorem safetynet_lob O now st ad cdj roots builtin :
  safetynet_wf O now st (roots ++ builtin) -> lib_or_ok (verify_safetynet O now st ad cdj roots builtin).
Proof.
  intros [Hr]. unfold verify_safetynet. need_step G1. need_step G2. apply negb_unset_true in G2.
  destruct (Hr G2) as (resp & Er & Easc & Hparts). rewrite Er, Easc. cbn [negb].
  destruct (split_dot resp []) as [|p0 [|p1 [|p2 [|p3 r]]]] eqn:Es; try exact I.
  destruct (Hparts p0 p1 p2 eq_refl) as (hb & hj & pb & pj & txt & d & rest & ts & c & sg & E1 & E2 & E3 & E4 & E5 & E6 & E7 & E8 & E9 & Hc & E10).
  rewrite E1. cbn [bind]. rewrite E2. cbn [bind]. rewrite E3. cbn [bind]. rewrite E4. cbn [bind]. cbv zeta.
  need_step G3. rewrite E5. cbn [bind]. rewrite E6. cbn [bind]. need_step G4. rewrite E7. cbn [bind]. need_step G5.
  rewrite E8. cbn [bind]. destruct (c_subject_cns c) as [|cn cns]; [congruence|]. need_step G6.
  apply lob_bind; [apply chain_lob, Hc|intros u _]. rewrite E10. cbn [bind]. need_step G7. apply verify_or_irr_lob.
Qed.

(* ---------------- the dispatch, and registration as a whole ---------------- *)
Definition statement_wf (O : oracles) (P : reg_policy) (fmt : bytes) (st : att_stmt) (att : att_cred) : Prop :=
  let roots := roots_for (rp_roots P) fmt in
  let pk := ac_pubkey att in
  (fmt_is fmt "fido-u2f" = true -> u2f_wf O (rp_now P) st pk (ac_aaguid att) roots) /\
  (fmt_is fmt "packed" = true -> packed_wf O (rp_now P) st pk roots) /\
  (fmt_is fmt "tpm" = true -> tpm_wf O (rp_now P) st pk roots) /\
  (fmt_is fmt "apple" = true -> apple_wf O (rp_now P) st pk (roots ++ rp_builtin_apple P)) /\
  (fmt_is fmt "android-safetynet" = true -> safetynet_wf O (rp_now P) st (roots ++ rp_builtin_safetynet P)) /\
  (fmt_is fmt "android-key" = true -> android_key_wf O (rp_now P) st pk).

Theorem statement_lob O P fmt st adr cdj ad att :
  statement_wf O P fmt st att -> lib_or_ok (verify_statement O P fmt st adr cdj ad att).
Proof.
  intros (H1 & H2 & H3 & H4 & H5 & H6). unfold verify_statement. cbv zeta.
  destruct (fmt_is fmt "none"); [apply lob_fneed_last|].
  destruct (fmt_is fmt "fido-u2f"); [apply u2f_lob, H1; reflexivity|].
  destruct (fmt_is fmt "packed"); [apply packed_lob, H2; reflexivity|].
  destruct (fmt_is fmt "tpm"); [apply tpm_lob, H3; reflexivity|].
  destruct (fmt_is fmt "apple"); [apply apple_lob, H4; reflexivity|].
  destruct (fmt_is fmt "android-safetynet"); [apply safetynet_lob, H5; reflexivity|].
  destruct (fmt_is fmt "android-key"); [apply android_key_lob, H6; reflexivity|]. exact I.
Qed.

(* registration: the statement hypothesis of [reg_wf] discharged from the structural well-formedness above *)
Record reg_wf' (O : oracles) (P : reg_policy) (c : reg_cred) : Prop := {
  rw'_cd : lib_or_ok (parse_client_data O (rcr_client_data c));
  rw'_ao : lib_or_ok (parse_att_object (rcr_att_obj c));
  rw'_rp : lib_or_ok (rp_id_hash O (rp_rp_id P));
  rw'_fmt : forall ao, parse_att_object (rcr_att_obj c) = Ok ao -> exists fmt, ao_fmt ao = CText fmt;
  rw'_key : forall ao att, parse_att_object (rcr_att_obj c) = Ok ao -> ad_att (ao_auth_data ao) = Some att ->
      lib_or_ok (decode_credential_public_key (ac_pubkey att));
  rw'_aaguid : forall ao att, parse_att_object (rcr_att_obj c) = Ok ao -> ad_att (ao_auth_data ao) = Some att -> len (ac_aaguid att) = 16;
  rw'_stmt : forall ao att fmt, parse_att_object (rcr_att_obj c) = Ok ao -> ad_att (ao_auth_data ao) = Some att -> ao_fmt ao = CText fmt ->
      statement_wf O P fmt (ao_stmt ao) att }.

Theorem reg_rejections_in_hierarchy' O P c : reg_wf' O P c -> lib_or_ok (verify_reg_rec O P c).
Proof.
  intros [Hcd Hao Hrp Hfmt Hk Hag Hst]. apply reg_rejections_in_hierarchy; [|exact Hag].
  constructor; auto. intros ao att fmt Eao Eatt Ef. apply statement_lob. exact (Hst ao att fmt Eao Eatt Ef).
Qed.
