From Coq Require Import ZArith List Bool Lia String.
From PW Require Import Model.Base Model.SigTypes Model.Json Model.Base64 Model.Utf8 Model.Cbor Model.AuthData
  Model.Oracles Model.ClientData Model.CredJson Model.Cose Model.SigAlg Model.Tpm Model.Formats Model.VerifyAuth Model.VerifyReg
  Generated.Constants Spec.SigSpec Spec.AuthSpec Spec.RegSpec Proofs.Tactics Proofs.AuthProofs Proofs.AuthDataProofs.
Import ListNotations.
Open Scope Z_scope.

Lemma need_ok c : need c = Ok tt -> c = true.
Proof. unfold need. apply guard_ok. Qed.
Lemma bind_need_ok {B} c (k : unit -> res B) b : bind (need c) k = Ok b -> c = true /\ k tt = Ok b.
Proof. unfold need. apply bind_guard_ok. Qed.

Ltac inv_bind' H :=
  repeat match type of H with
  | bind (need _) _ = Ok _ =>
      let G := fresh "G" in apply bind_need_ok in H as [G H]
  | bind (guard _ _) _ = Ok _ =>
      let G := fresh "G" in apply bind_guard_ok in H as [G H]
  | bind _ _ = Ok _ =>
      let a := fresh "a" in let E := fresh "E" in apply bind_ok in H as [a [E H]]
  end.

Lemma is_nilb_false {A} (l : list A) : negb (is_nilb l) = true -> l <> [].
Proof. destruct l; cbn; congruence. Qed.
Lemma is_nilb_false' {A} (l : list A) : l <> [] -> negb (is_nilb l) = true.
Proof. destruct l; cbn; congruence. Qed.

Lemma existsb_eqb_In a l : existsb (Z.eqb a) l = true <-> In a l.
Proof.
  rewrite existsb_exists. split.
  - intros (x & Hin & Hx). apply Z.eqb_eq in Hx. subst. exact Hin.
  - intros H. exists a. split; [exact H|apply Z.eqb_refl].
Qed.

Theorem verify_reg_rec_sound O P c r : verify_reg_rec O P c = Ok r -> RegAccepted O P c r.
Proof.
  unfold verify_reg_rec. intros H. inv_bind' H.
  rename a into cd, a0 into ao, a1 into h.
  destruct (ad_att (ao_auth_data ao)) as [att|] eqn:Eatt; [|discriminate].
  inv_bind' H. rename a into dk.
  destruct (alg_int (dk_alg dk)) as [alg|] eqn:Ealg; [|discriminate].
  destruct (ao_fmt ao) as [| |fmt| | | | |] eqn:Efmt; try discriminate.
  inv_bind' H. rename a into u, a0 into bf, a1 into ag.
  destruct u. apply backup_flags_ok in E4 as [Hb ->]. injection H as <-.
  apply str_eqb_eq in G. apply str_eqb_eq in G0. apply jstr_is_eq in G1. apply bytes_eqb_eq in G2.
  apply bytes_eqb_eq in G5.
  constructor.
  - symmetry. exact G.
  - exact G0.
  - exists cd. repeat split; auto.
  - exists ao, h, att, dk, alg, fmt, ag. repeat split; auto.
    + intros Hup. rewrite Hup in G6. exact G6.
    + intros Huv. rewrite Huv in G7. exact G7.
    + apply is_nilb_false, G8.
    + apply is_nilb_false, G9.
    + apply is_nilb_false, G10.
    + apply existsb_eqb_In, G11.
Qed.

Theorem verify_reg_rec_complete O P c r : RegAccepted O P c r -> verify_reg_rec O P c = Ok r.
Proof.
  intros [Hid Hty (cd & Hcd & Ht & Hch & Ho & Htb)
            (ao & h & att & dk & alg & fmt & ag & Hao & Hh & Hrp & Hup & Huv & Hatt & Hcid & Hpk & Hag & Hdk & Halg & Hin & Hfmt & Hst & Hbk & Hags & ->)].
  unfold verify_reg_rec.
  rewrite Hid, list_eqb_refl. cbn [guard bind].
  rewrite Hty, list_eqb_refl. cbn [guard bind].
  rewrite Hcd. cbn [bind]. rewrite Ht. cbn [jstr_is]. rewrite list_eqb_refl. unfold need at 1. cbn [guard bind].
  rewrite Hch. unfold bytes_eqb. rewrite list_eqb_refl. unfold need at 1. cbn [guard bind].
  rewrite Ho. unfold need at 1. cbn [guard bind]. rewrite Htb. unfold need at 1. cbn [guard bind].
  rewrite Hao. cbn [bind]. rewrite Hh. cbn [bind]. rewrite Hrp, list_eqb_refl. unfold need at 1. cbn [guard bind].
  assert (Hup' : negb (rp_require_up P) || f_up (ao_auth_data ao) = true).
  { destruct (rp_require_up P); cbn; [apply Hup; reflexivity|reflexivity]. }
  assert (Huv' : negb (rp_require_uv P) || f_uv (ao_auth_data ao) = true).
  { destruct (rp_require_uv P); cbn; [apply Huv; reflexivity|reflexivity]. }
  rewrite Hup'. unfold need at 1. cbn [guard bind]. rewrite Huv'. unfold need at 1. cbn [guard bind].
  rewrite Hatt.
  rewrite (is_nilb_false' _ Hcid). unfold need at 1. cbn [guard bind].
  rewrite (is_nilb_false' _ Hpk). unfold need at 1. cbn [guard bind].
  rewrite (is_nilb_false' _ Hag). unfold need at 1. cbn [guard bind].
  rewrite Hdk. cbn [bind]. rewrite Halg.
  apply existsb_eqb_In in Hin. rewrite Hin. unfold need at 1. cbn [guard bind].
  rewrite Hfmt. rewrite Hst. cbn [bind].
  unfold parse_backup_flags.
  destruct (f_be (ao_auth_data ao)) eqn:Ebe, (f_bs (ao_auth_data ao)) eqn:Ebs; cbn [negb andb bind fst snd];
    try (rewrite Hags; reflexivity).
  specialize (Hbk eq_refl). discriminate.
Qed.

Theorem verify_reg_rec_iff O P c r : verify_reg_rec O P c = Ok r <-> RegAccepted O P c r.
Proof. split; [apply verify_reg_rec_sound|apply verify_reg_rec_complete]. Qed.

(* ---- the format is one of the seven; 'none' carries no known statement member ---- *)
Lemma fmt_is_eq fmt name : fmt_is fmt name = true -> fmt = s2l name.
Proof. unfold fmt_is. apply bytes_eqb_eq. Qed.

Theorem statement_fmt_known O P fmt st adr cdj ad att :
  verify_statement O P fmt st adr cdj ad att = Ok tt ->
  exists name, In name seven_formats /\ fmt = s2l name.
Proof.
  unfold verify_statement. intros H.
  destruct (fmt_is fmt "none") eqn:E1; [exists "none"%string; split; [cbn; tauto|apply fmt_is_eq, E1]|].
  destruct (fmt_is fmt "fido-u2f") eqn:E2; [exists "fido-u2f"%string; split; [cbn; tauto|apply fmt_is_eq, E2]|].
  destruct (fmt_is fmt "packed") eqn:E3; [exists "packed"%string; split; [cbn; tauto|apply fmt_is_eq, E3]|].
  destruct (fmt_is fmt "tpm") eqn:E4; [exists "tpm"%string; split; [cbn; tauto|apply fmt_is_eq, E4]|].
  destruct (fmt_is fmt "apple") eqn:E5; [exists "apple"%string; split; [cbn; tauto|apply fmt_is_eq, E5]|].
  destruct (fmt_is fmt "android-safetynet") eqn:E6; [exists "android-safetynet"%string; split; [cbn; tauto|apply fmt_is_eq, E6]|].
  destruct (fmt_is fmt "android-key") eqn:E7; [exists "android-key"%string; split; [cbn; tauto|apply fmt_is_eq, E7]|].
  discriminate.
Qed.

Theorem statement_none_empty O P st adr cdj ad att :
  verify_statement O P (s2l "none") st adr cdj ad att = Ok tt -> stmt_any_set st = false.
Proof.
  unfold verify_statement. replace (fmt_is (s2l "none") "none") with true by (vm_compute; reflexivity).
  intros H. apply need_ok in H. destruct (stmt_any_set st); [discriminate|reflexivity].
Qed.

(* the constants the code dispatches on are the seven format identifiers of the enum (regenerated) *)
Lemma formats_are_spec : map snd att_format_enum = seven_formats.
Proof. vm_compute. reflexivity. Qed.

(* ---- monotonicity in the policy (C20) ---- *)
Lemma roots_builtin_eq P P' fmt st adr cdj ad att O : reg_looser P P' ->
  verify_statement O P' fmt st adr cdj ad att = verify_statement O P fmt st adr cdj ad att.
Proof.
  intros L. destruct L. unfold verify_statement.
  rewrite rl_roots, rl_b1, rl_b2, rl_b3, rl_now. reflexivity.
Qed.

Theorem reg_monotone O P P' c r : reg_looser P P' ->
  verify_reg_rec O P c = Ok r -> verify_reg_rec O P' c = Ok r.
Proof.
  intros L H. pose proof L as L0. destruct L.
  apply verify_reg_rec_iff in H. apply verify_reg_rec_iff.
  destruct H as [Hid Hty (cd & Hcd & Ht & Hch & Ho & Htb)
            (ao & h & att & dk & alg & fmt & ag & Hao & Hh & Hrp & Hup & Huv & Hatt & Hcid & Hpk & Hag & Hdk & Halg & Hin & Hfmt & Hst & Hbk & Hags & Hr)].
  constructor; auto.
  - exists cd. rewrite rl_challenge. repeat split; auto.
  - exists ao, h, att, dk, alg, fmt, ag. rewrite rl_rp. rewrite (roots_builtin_eq P P' _ _ _ _ _ _ O L0).
    repeat split; auto.
Qed.

Theorem reg_monotone_any_form O P P' c r : reg_looser P P' ->
  verify_reg O P c = Ok r -> verify_reg O P' c = Ok r.
Proof.
  intros L H. unfold verify_reg in *. apply bind_ok in H as [rec [E H]]. rewrite E. cbn [bind].
  eapply reg_monotone; eauto.
Qed.

Theorem reg_forms_text_dict O P s j : o_json_loads O true s = JOk j ->
  verify_reg O P (InText s) = verify_reg O P (InDict j).
Proof. intros H. unfold verify_reg, parse_reg_cred_json, load_obj. rewrite H. reflexivity. Qed.
Theorem reg_forms_dict_rec O P j rec : parse_reg_cred_json O (inr j) = Ok rec ->
  verify_reg O P (InDict j) = verify_reg O P (InRec rec).
Proof. intros H. unfold verify_reg. rewrite H. reflexivity. Qed.

(* ---- C10 registration half / C05 fidelity ---- *)
Lemma parse_att_object_ad b ao : parse_att_object b = Ok ao -> parse_auth_data (ao_auth_data_raw ao) = Ok (ao_auth_data ao).
Proof.
  unfold parse_att_object. intros H. apply bind_ok in H as [v [Ev H]].
  destruct v as [| | | |m| | |]; try discriminate.
  destruct (dict_get m (CText (s2l "fmt"))) as [fmt|]; [|discriminate].
  destruct (dict_get m (CText (s2l "authData"))) as [[| adb | | | | | |]|]; try discriminate.
  apply bind_ok in H as [ad [Ead H]]. apply bind_ok in H as [st [Est H]]. injection H as <-. exact Ead.
Qed.

Theorem reg_flag_table O P c r : verify_reg_rec O P c = Ok r ->
  exists ao, parse_att_object (rcr_att_obj c) = Ok ao /\
  let f := nth 32 (ao_auth_data_raw ao) 0 in
  (rp_require_up P = true -> flag f 0 = true) /\ (rp_require_uv P = true -> flag f 2 = true) /\
  flag f 6 = true /\ (flag f 4 = true -> flag f 3 = true) /\
  vr_uv r = flag f 2 /\ vr_multi_device r = flag f 3 /\ vr_backed_up r = flag f 4.
Proof.
  intros H. apply verify_reg_rec_sound in H.
  destruct H as [_ _ _ (ao & h & att & dk & alg & fmt & ag & Hao & _ & _ & Hup & Huv & Hatt & _ & _ & _ & _ & _ & _ & _ & _ & Hbk & _ & ->)].
  exists ao. split; [exact Hao|].
  pose proof (parse_att_object_ad _ _ Hao) as Had.
  pose proof (parse_auth_data_header _ _ Had) as (_ & _ & Hf & _).
  pose proof (parse_auth_data_presence _ _ Had) as [Hpres _].
  unfold f_up, f_uv, f_be, f_bs in *. rewrite Hf in *. cbn.
  repeat split; auto. apply Hpres. rewrite Hatt. discriminate.
Qed.

Theorem reg_fidelity O P c r : verify_reg_rec O P c = Ok r ->
  exists ao att fmt, parse_att_object (rcr_att_obj c) = Ok ao /\ ad_att (ao_auth_data ao) = Some att /\ ao_fmt ao = CText fmt /\
    vr_cred_id r = ac_cred_id att /\ vr_pubkey r = ac_pubkey att /\
    vr_count r = be_int (slice 33 37 (ao_auth_data_raw ao)) /\
    aaguid_to_string (ac_aaguid att) = Ok (vr_aaguid r) /\ vr_fmt r = fmt /\
    vr_att_obj r = rcr_att_obj c /\ vr_type r = public_key_s.
Proof.
  intros H. apply verify_reg_rec_sound in H.
  destruct H as [_ Hty _ (ao & h & att & dk & alg & fmt & ag & Hao & _ & _ & _ & _ & Hatt & _ & _ & _ & _ & _ & _ & Hfmt & _ & _ & Hag & ->)].
  exists ao, att, fmt. cbn. repeat split; auto.
  pose proof (parse_att_object_ad _ _ Hao) as Had.
  apply parse_auth_data_header in Had as (_ & _ & _ & Hc). exact Hc.
Qed.
