From Coq Require Import ZArith List Bool Lia String.
From PW Require Import Model.Base Model.Utf8 Model.Cbor Model.AuthData Model.Oracles Model.Formats Model.VerifyReg
  Spec.FormatSpec Spec.ChainSpec Proofs.Tactics Proofs.RegProofs Proofs.FormatProofs.
Import ListNotations.
Open Scope Z_scope.

Lemma validate_chain_anchored O now x5c roots : roots <> [] -> validate_chain O now x5c roots = Ok tt ->
  x5c <> [] /\ o_chain O now x5c roots = ChainOk.
Proof.
  intros Hr. unfold validate_chain. destruct roots as [|r0 roots]; [congruence|].
  destruct x5c as [|c0 x5c]; [discriminate|].
  destruct (o_chain O now (c0 :: x5c) (r0 :: roots)); try discriminate. intros _. split; [discriminate|reflexivity].
Qed.

Lemma validate_chain_passthrough O now x5c : validate_chain O now x5c [] = Ok tt.
Proof. reflexivity. Qed.

(* roots configured for another format are never consulted *)
Lemma roots_for_skip k v l fmt kb : utf8_encode k = Some kb -> kb <> fmt -> roots_for ((k, v) :: l) fmt = roots_for l fmt.
Proof.
  intros Hk Hne. cbn [roots_for]. rewrite Hk.
  destruct (bytes_eqb kb fmt) eqn:E; [apply bytes_eqb_eq in E; congruence|reflexivity].
Qed.

Theorem statement_isolation O P P' fmt st adr cdj ad att :
  roots_for (rp_roots P) fmt = roots_for (rp_roots P') fmt ->
  rp_builtin_apple P = rp_builtin_apple P' -> rp_builtin_android_key P = rp_builtin_android_key P' ->
  rp_builtin_safetynet P = rp_builtin_safetynet P' -> rp_now P = rp_now P' ->
  verify_statement O P fmt st adr cdj ad att = verify_statement O P' fmt st adr cdj ad att.
Proof. intros H1 H2 H3 H4 H5. unfold verify_statement. rewrite H1, H2, H3, H4, H5. reflexivity. Qed.

(* which anchors are in force, per format *)
Definition anchors_in_force (P : reg_policy) (fmt : bytes) : list bytes :=
  roots_for (rp_roots P) fmt ++
  (if fmt_is fmt "apple" then rp_builtin_apple P
   else if fmt_is fmt "android-safetynet" then rp_builtin_safetynet P
   else if fmt_is fmt "android-key" then rp_builtin_android_key P else []).

Ltac fmt_eval := repeat match goal with |- context [fmt_is (s2l ?a) ?b] =>
  let v := eval vm_compute in (fmt_is (s2l a) b) in change (fmt_is (s2l a) b) with v end.
Ltac fmt_eval_in H := repeat match type of H with context [fmt_is (s2l ?a) ?b] =>
  let v := eval vm_compute in (fmt_is (s2l a) b) in change (fmt_is (s2l a) b) with v in H end.

Theorem packed_chain_checked O P st adr cdj ad att :
  verify_statement O P (s2l "packed") st adr cdj ad att = Ok tt -> unset (st_x5c st) = false ->
  exists x5c, x5c_list (fld (st_x5c st)) = Ok x5c /\
    validate_chain O (rp_now P) x5c (anchors_in_force P (s2l "packed")) = Ok tt.
Proof.
  unfold verify_statement, anchors_in_force. fmt_eval. intros H Hx. rewrite app_nil_r.
  apply verify_packed_sound in H. destruct H as [_ _ [(_ & x5c & c & A & B & _)|(Hu & _)]]; [eauto|congruence].
Qed.

Theorem tpm_chain_checked O P st adr cdj ad att :
  verify_statement O P (s2l "tpm") st adr cdj ad att = Ok tt ->
  exists x5c, x5c_list (fld (st_x5c st)) = Ok x5c /\
    validate_chain O (rp_now P) x5c (anchors_in_force P (s2l "tpm")) = Ok tt.
Proof.
  unfold verify_statement, anchors_in_force. fmt_eval. intros H. rewrite app_nil_r.
  apply verify_tpm_sound in H. destruct H as [_ _ (x5c & pa_raw & ci_raw & pa & dk & ci & c & ph & A & B & _)]. eauto.
Qed.

Theorem u2f_chain_checked O P st adr cdj ad att :
  verify_statement O P (s2l "fido-u2f") st adr cdj ad att = Ok tt ->
  exists der, x5c_list (fld (st_x5c st)) = Ok [der] /\
    validate_chain O (rp_now P) [der] (anchors_in_force P (s2l "fido-u2f")) = Ok tt.
Proof.
  unfold verify_statement, anchors_in_force. fmt_eval. intros H. rewrite app_nil_r.
  apply verify_fido_u2f_sound in H. destruct H as [_ (der & c & A & B & _) _]. eauto.
Qed.

Theorem apple_chain_checked O P st adr cdj ad att :
  verify_statement O P (s2l "apple") st adr cdj ad att = Ok tt ->
  exists x5c, x5c_list (fld (st_x5c st)) = Ok x5c /\
    validate_chain O (rp_now P) x5c (anchors_in_force P (s2l "apple")) = Ok tt.
Proof.
  unfold verify_statement, anchors_in_force. fmt_eval. intros H.
  apply verify_apple_sound in H. destruct H as [_ (x5c & c & v & dk & pk & A & B & _)]. eauto.
Qed.

Theorem safetynet_chain_checked O P st adr cdj ad att :
  verify_statement O P (s2l "android-safetynet") st adr cdj ad att = Ok tt ->
  exists x5c, x5c <> [] /\ validate_chain O (rp_now P) x5c (anchors_in_force P (s2l "android-safetynet")) = Ok tt.
Proof.
  unfold verify_statement, anchors_in_force. fmt_eval. intros H.
  apply verify_safetynet_sound in H.
  destruct H as [_ (resp & p0 & p1 & p2 & hb & hj & pb & pj & x5c_txt & x5c & c & sg & ts & cn & cns & H)].
  decompose [and] H. eauto.
Qed.

Theorem android_key_root_known O P st adr cdj ad att :
  verify_statement O P (s2l "android-key") st adr cdj ad att = Ok tt ->
  exists x5c rootc, x5c_list (fld (st_x5c st)) = Ok x5c /\ load_cert O (last_bytes x5c) = Ok rootc /\
    validate_chain O (rp_now P) (removelast x5c) [c_pem rootc] = Ok tt /\
    In (c_pem rootc) (anchors_in_force P (s2l "android-key")).
Proof.
  unfold verify_statement, anchors_in_force. fmt_eval. intros H.
  apply verify_android_key_sound in H. destruct H as [_ (x5c & rootc & c & dk & pk & kd & A & B & C & D & _)]. eauto 10.
Qed.

(* tie to the abstract path spec, under the stated hypothesis about OpenSSL *)
Section UnderOpenSSLSpec.
  Variable O : oracles.
  Variable view_der : bytes -> option xcert.      (* what a DER certificate denotes *)
  Variable view_pem : bytes -> option xcert.
  Definition views {A} (f : A -> option xcert) (l : list A) : option (list xcert) :=
    fold_right (fun a acc => match f a, acc with Some c, Some t => Some (c :: t) | _, _ => None end) (Some []) l.
  Hypothesis openssl_spec : forall now x5c roots, o_chain O now x5c roots = ChainOk ->
    exists xs rs, views view_der x5c = Some xs /\ views view_pem roots = Some rs /\ ChainAcceptable now xs rs.

  Theorem anchored_chain_is_valid_path now x5c roots : roots <> [] -> validate_chain O now x5c roots = Ok tt ->
    exists xs rs, views view_der x5c = Some xs /\ views view_pem roots = Some rs /\ ChainAcceptable now xs rs.
  Proof. intros Hr H. apply validate_chain_anchored in H as [_ H]; [|exact Hr]. apply openssl_spec, H. Qed.
End UnderOpenSSLSpec.
