From Coq Require Import ZArith List Bool Lia.
From PW Require Import Model.Base Model.SigTypes Model.Cbor Model.AuthData Model.Oracles Model.ClientData Model.CredJson
  Model.Cose Model.SigAlg Model.VerifyAuth Spec.SigSpec Spec.AuthSpec Proofs.Tactics Proofs.AuthProofs.
Import ListNotations.
Open Scope Z_scope.

Lemma app_inj_len {A} (a a' h h' : list A) : length h = length h' -> a ++ h = a' ++ h' -> a = a' /\ h = h'.
Proof.
  intros Hl E. assert (La : length a = length a').
  { apply (f_equal (@length A)) in E. rewrite !app_length in E. lia. }
  revert a' La E. induction a as [|x a IH]; intros [|y a'] La E; cbn in *; try discriminate.
  - auto.
  - injection E as -> E. injection La as La. destruct (IH a' La E) as [-> ->]. auto.
Qed.

Section Tamper.
  Variable O : oracles.
  (* cryptographic idealisations - PREMISES of the theorems below (tested exhaustively by the bit-flip run, not proved) *)
  Hypothesis sig_binds_msg : forall k sch s m m', o_verify O k sch s m = true -> o_verify O k sch s m' = true -> m = m'.
  Hypothesis sig_tight : forall k sch s s' m, o_verify O k sch s m = true -> o_verify O k sch s' m = true ->
                         length s = length s' -> s = s'.
  Hypothesis sha_cf : forall a b, sha256 O a = sha256 O b -> a = b.
  Hypothesis sha_len : forall a b, length (sha256 O a) = length (sha256 O b).

  (* what both acceptances say about the signature: same stored key => same abstract key and scheme *)
  Lemma accepted_sig P c r : verify_auth_rec O P c = Ok r ->
    exists dk pk alg sch, decode_credential_public_key (ap_pubkey P) = Ok dk /\ to_crypto O dk = Ok pk /\
      alg_int (dk_alg dk) = Some alg /\ spec_scheme (kind_of pk) alg = Some sch /\
      o_verify O pk sch (acr_signature c) (acr_auth_data c ++ sha256 O (acr_client_data c)) = true.
  Proof. intros H. apply verify_auth_rec_sound in H. destruct H as [_ _ _ _ S]. exact S. Qed.

  Lemma same_key P c c' r r' : verify_auth_rec O P c = Ok r -> verify_auth_rec O P c' = Ok r' ->
    exists pk sch,
      o_verify O pk sch (acr_signature c) (acr_auth_data c ++ sha256 O (acr_client_data c)) = true /\
      o_verify O pk sch (acr_signature c') (acr_auth_data c' ++ sha256 O (acr_client_data c')) = true.
  Proof.
    intros H1 H2. apply accepted_sig in H1 as (dk & pk & alg & sch & D1 & C1 & A1 & S1 & V1).
    apply accepted_sig in H2 as (dk' & pk' & alg' & sch' & D2 & C2 & A2 & S2 & V2).
    rewrite D1 in D2. injection D2 as <-. rewrite C1 in C2. injection C2 as <-.
    rewrite A1 in A2. injection A2 as <-. rewrite S1 in S2. injection S2 as <-. eauto.
  Qed.

  Theorem tamper_auth_data P c c' r : verify_auth_rec O P c = Ok r ->
    acr_signature c' = acr_signature c -> acr_client_data c' = acr_client_data c -> acr_auth_data c' <> acr_auth_data c ->
    forall r', verify_auth_rec O P c' = Ok r' -> False.
  Proof.
    intros H Es Ec Hne r' H'. destruct (same_key P c c' r r' H H') as (pk & sch & V1 & V2).
    rewrite Es, Ec in V2. pose proof (sig_binds_msg _ _ _ _ _ V1 V2) as E.
    apply app_inj_len in E as [E _]; [|reflexivity]. congruence.
  Qed.

  Theorem tamper_client_data P c c' r : verify_auth_rec O P c = Ok r ->
    acr_signature c' = acr_signature c -> acr_auth_data c' = acr_auth_data c -> acr_client_data c' <> acr_client_data c ->
    forall r', verify_auth_rec O P c' = Ok r' -> False.
  Proof.
    intros H Es Ea Hne r' H'. destruct (same_key P c c' r r' H H') as (pk & sch & V1 & V2).
    rewrite Es, Ea in V2. pose proof (sig_binds_msg _ _ _ _ _ V1 V2) as E.
    apply app_inj_len in E as [_ E]; [|apply sha_len]. apply sha_cf in E. congruence.
  Qed.

  Theorem tamper_signature P c c' r : verify_auth_rec O P c = Ok r ->
    acr_auth_data c' = acr_auth_data c -> acr_client_data c' = acr_client_data c ->
    acr_signature c' <> acr_signature c -> length (acr_signature c') = length (acr_signature c) ->
    forall r', verify_auth_rec O P c' = Ok r' -> False.
  Proof.
    intros H Ea Ec Hne Hl r' H'. destruct (same_key P c c' r r' H H') as (pk & sch & V1 & V2).
    rewrite Ea, Ec in V2. pose proof (sig_tight _ _ _ _ _ V1 V2 (eq_sym Hl)) as E. congruence.
  Qed.
End Tamper.

(* without any hypothesis: the verifier is handed the ENTIRE raw authenticator data, the hash of the ENTIRE raw
   client data and the ENTIRE signature *)
Theorem whole_bytes_reach_the_verifier O P c r : verify_auth_rec O P c = Ok r ->
  exists pk sch, o_verify O pk sch (acr_signature c) (acr_auth_data c ++ sha256 O (acr_client_data c)) = true.
Proof.
  intros H. apply verify_auth_rec_sound in H. destruct H as [_ _ _ _ (dk & pk & alg & sch & _ & _ & _ & _ & V)]. eauto.
Qed.
