From Coq Require Import ZArith List Bool Lia String.
From PW Require Import Model.Base Model.Json Model.Base64 Model.Oracles Model.CredJson Model.Options Model.OptionsJson
  Generated.Constants Spec.OptionsSpec Proofs.Tactics Proofs.Base64Proofs Proofs.JsonProofs.
Import ListNotations.
Open Scope Z_scope.

Definition in_strs (l : list string) (s : pystr) : bool := existsb (fun t => str_eqb s (s2l t)) l.

Record desc_wf (d : descriptor) : Prop := {
  dw_id : bytes_ok (d_id d) = true;
  dw_type : d_type d = public_key_t;
  dw_tr : match d_transports d with Some t => forallb (in_strs spec_transports) t = true | None => True end }.

(* the enumerations the code knows are the spec's (regenerated constants) *)
Lemma enums_are_spec :
  map snd transport_enum = spec_transports /\ map snd user_verification_enum = spec_uv /\
  map snd attachment_enum = spec_attachment /\ map snd resident_key_enum = spec_resident_key /\
  map snd attestation_pref_enum = spec_attestation /\ map snd hint_enum = spec_hints.
Proof. vm_compute. repeat split. Qed.

Lemma enum_has_in e s : enum_has e (JStr s) = in_strs (map snd e) s.
Proof.
  unfold enum_has, in_strs. cbn [jstr_is]. induction e as [|p e IH]; cbn; [reflexivity|]. rewrite IH. reflexivity.
Qed.

Lemma enum_lookup_ok e s : in_strs (map snd e) s = true -> enum_lookup e (JStr s) = Some s.
Proof. intros H. unfold enum_lookup. rewrite enum_has_in, H. reflexivity. Qed.
Lemma enum_lookup_bad e s : in_strs (map snd e) s = false -> enum_lookup e (JStr s) = None.
Proof. intros H. unfold enum_lookup. rewrite enum_has_in, H. reflexivity. Qed.

Lemma urlsafe_is_b64url c : urlsafe_char c = true -> b64url_char c = true.
Proof. unfold urlsafe_char, b64url_char. auto. Qed.
Lemma enc_is_b64url b : bytes_ok b = true -> is_b64url (JStr (b64url_enc b)) = true.
Proof.
  intros H. cbn [is_b64url]. pose proof (enc_urlsafe b H) as E. rewrite forallb_forall in *.
  intros c Hc. apply urlsafe_is_b64url, E, Hc.
Qed.

Ltac eval_find :=
  repeat match goal with
  | |- context [find ?f ?l] => let v := eval vm_compute in (find f l) in change (find f l) with v; cbv beta iota
  end.
Ltac eval_consts :=
  repeat match goal with
  | |- context [jstr ?s] => let v := eval vm_compute in (jstr s) in change (jstr s) with v
  | |- context [s2l ?s] => let v := eval vm_compute in (s2l s) in change (s2l s) with v
  end.

Ltac crunch :=
  repeat (progress (cbn [members_ok find forallb has_all jhas jget jget_none str_eqb list_eqb Z.eqb Pos.eqb andb fst snd app]; eval_consts)).

(* ---------- descriptors ---------- *)
Lemma transports_json_ok t : forallb (in_strs spec_transports) t = true ->
  forallb (str_in spec_transports) (map JStr t) = true.
Proof. induction t as [|x t IH]; cbn [forallb map]; [reflexivity|]. intros H. apply andb_true_iff in H as [A B]. rewrite IH by exact B. cbn [str_in]. unfold in_strs in A. rewrite A. reflexivity. Qed.

Theorem descriptor_schema_ok d : desc_wf d -> descriptor_schema (descriptor_json d) = true.
Proof.
  intros [Hid Hty Htr]. unfold descriptor_json, descriptor_schema, obj_ok.
  rewrite Hty. pose proof (enc_is_b64url _ Hid) as Hb.
  destruct (d_transports d) as [[|x t]|]; cbn [opt_nonempty is_nil app]; unfold has_all; eval_consts; crunch; rewrite Hb; cbn [andb].
  - unfold public_key_t. eval_consts. cbn [jstr_is str_eqb list_eqb Z.eqb Pos.eqb andb]. reflexivity.
  - unfold public_key_t. eval_consts. cbn [jstr_is str_eqb list_eqb Z.eqb Pos.eqb andb].
    change (nonempty_arr_of (str_in spec_transports) (JArr (map JStr (x :: t)))) with (forallb (str_in spec_transports) (map JStr (x :: t))).
    rewrite (transports_json_ok _ Htr). reflexivity.
  - unfold public_key_t. eval_consts. cbn [jstr_is str_eqb list_eqb Z.eqb Pos.eqb andb]. reflexivity.
Qed.

Definition norm_desc (d : descriptor) : descriptor :=
  {| d_id := d_id d; d_type := public_key_t; d_transports := opt_nonempty (d_transports d) |}.

Lemma map_opt_transports t : forallb (in_strs spec_transports) t = true ->
  map_opt (enum_lookup transport_enum) (map JStr t) = Some t.
Proof.
  induction t as [|x t IH]; cbn [forallb map map_opt]; [reflexivity|]. intros H. apply andb_true_iff in H as [A B].
  rewrite IH by exact B. rewrite enum_lookup_ok; [reflexivity|]. destruct enums_are_spec as (-> & _). exact A.
Qed.

Theorem parse_descriptors_roundtrip l : Forall desc_wf l ->
  parse_descriptors (map descriptor_json l) = Ok (map norm_desc l).
Proof.
  induction 1 as [|d l [Hid Hty Htr] Hl IH]; [reflexivity|].
  cbn [map parse_descriptors]. unfold descriptor_json at 1.
  assert (G1 : forall rest, jget_none ((jstr "id", JStr (b64url_enc (d_id d))) :: rest) (jstr "id") = JStr (b64url_enc (d_id d))).
  { intros rest. unfold jget_none. cbn [jget]. rewrite Tactics.list_eqb_refl. reflexivity. }
  cbn [app]. rewrite G1.
  pose proof (b64_roundtrip (d_id d) 0 Hid) as R. cbn [repeat] in R. rewrite app_nil_r in R. rewrite R. cbn [bind].
  rewrite IH.
  destruct (d_transports d) as [[|x t]|] eqn:Et; cbn [opt_nonempty is_nil app].
  - assert (G2 : jget_none [(jstr "id", JStr (b64url_enc (d_id d))); (jstr "type", JStr (d_type d))] (jstr "transports") = JNull) by (vm_compute; reflexivity).
    unfold jget_none in *. unfold jget_none in G2.
    replace (jget [(jstr "id", JStr (b64url_enc (d_id d))); (jstr "type", JStr (d_type d))] (jstr "transports")) with (@None json) by (cbn [jget]; eval_consts; cbn; reflexivity).
    cbn [bind]. unfold norm_desc. rewrite Et. reflexivity.
  - replace (jget_none [(jstr "id", JStr (b64url_enc (d_id d))); (jstr "type", JStr (d_type d)); (jstr "transports", JArr (map JStr (x :: t)))] (jstr "transports"))
      with (JArr (map JStr (x :: t))) by (unfold jget_none; cbn [jget]; eval_consts; cbn; reflexivity).
    rewrite (map_opt_transports _ Htr). cbn [bind]. unfold norm_desc. rewrite Et. reflexivity.
  - replace (jget_none [(jstr "id", JStr (b64url_enc (d_id d))); (jstr "type", JStr (d_type d))] (jstr "transports")) with JNull
      by (unfold jget_none; cbn [jget]; eval_consts; cbn; reflexivity).
    cbn [bind]. unfold norm_desc. rewrite Et. reflexivity.
Qed.

(* ---------- request options ---------- *)
Record request_wf (o : request_options) : Prop := {
  qw_ch : bytes_ok (ro_challenge o) = true;
  qw_allow : match ro_allow o with Some l => Forall desc_wf l | None => True end;
  qw_uv : exists u, ro_uv o = Some u /\ in_strs spec_uv u = true }.

Lemma descriptors_schema_ok l : Forall desc_wf l -> forallb descriptor_schema (map descriptor_json l) = true.
Proof. induction 1 as [|d l Hd Hl IH]; cbn [map forallb]; [reflexivity|]. rewrite (descriptor_schema_ok d Hd), IH. reflexivity. Qed.

Lemma in_strs_nonempty l u : in_strs l u = true -> forallb (fun t => negb (is_nil (s2l t))) l = true -> is_nil u = false.
Proof.
  unfold in_strs. intros H Hl. apply existsb_exists in H as (t & Hin & Ht). apply Tactics.str_eqb_eq in Ht. subst u.
  rewrite forallb_forall in Hl. specialize (Hl t Hin). destruct (is_nil (s2l t)); [discriminate|reflexivity].
Qed.

Theorem request_schema_ok o : request_wf o -> request_schema (request_options_json o) = true.
Proof.
  intros [Hch Hal (u & Hu & Huv)]. unfold request_options_json, request_schema, obj_ok.
  pose proof (enc_is_b64url _ Hch) as Hb. rewrite Hu.
  assert (Hne : is_nil u = false) by (apply (in_strs_nonempty spec_uv u Huv); vm_compute; reflexivity). rewrite Hne.
  assert (Huv' : str_in spec_uv (JStr u) = true) by exact Huv.
  destruct (ro_timeout o) as [t|]; destruct (ro_rp_id o) as [r|]; destruct (ro_allow o) as [l|];
    cbn [opt_kv app]; unfold has_all; eval_consts; crunch; rewrite ?Hb, ?Huv'; cbn [andb is_int is_str arr_of];
    try rewrite (descriptors_schema_ok l Hal); reflexivity.
Qed.

Definition norm_request (o : request_options) : request_options :=
  {| ro_challenge := ro_challenge o; ro_timeout := ro_timeout o; ro_rp_id := ro_rp_id o;
     ro_allow := option_map (map norm_desc) (ro_allow o); ro_uv := ro_uv o |}.

Theorem request_roundtrip O o : request_wf o ->
  parse_auth_options_json O (inr (request_options_json o)) = Ok (norm_request o).
Proof.
  intros [Hch Hal (u & Hu & Huv)]. unfold parse_auth_options_json, load_obj, request_options_json.
  cbn [bind]. rewrite Hu.
  assert (Hne : is_nil u = false) by (apply (in_strs_nonempty spec_uv u Huv); vm_compute; reflexivity). rewrite Hne.
  pose proof (b64_roundtrip (ro_challenge o) 0 Hch) as R. cbn [repeat] in R. rewrite app_nil_r in R.
  assert (Hl : enum_lookup user_verification_enum (JStr u) = Some u).
  { apply enum_lookup_ok. destruct enums_are_spec as (_ & -> & _). exact Huv. }
  unfold norm_request. rewrite Hu.
  destruct (ro_timeout o) as [t|]; destruct (ro_rp_id o) as [r|]; destruct (ro_allow o) as [l|];
    cbn [opt_kv app option_map]; unfold get_str, parse_cred_list; eval_consts; crunch; cbn [bind json_int];
    rewrite ?Hl; cbn [bind]; try rewrite (parse_descriptors_roundtrip l Hal); cbn [bind wrap]; rewrite R; cbn [bind]; reflexivity.
Qed.

(* refusal: a required scalar member missing / of the wrong JSON type, or an unknown enum value *)
Theorem request_refuses_challenge O m : (forall s, jget_none m (jstr "challenge") <> JStr s) ->
  parse_auth_options_json O (inr (JObj m)) = Err (Lib InvalidJSONStructure).
Proof.
  intros H. unfold parse_auth_options_json, load_obj, get_str. cbn [bind].
  change (s2l "challenge") with (jstr "challenge").
  destruct (jget_none m (jstr "challenge")); try reflexivity. exfalso. eapply H. reflexivity.
Qed.

Theorem request_refuses_uv O m ch : jget_none m (jstr "challenge") = JStr ch ->
  (forall s, jget_none m (jstr "userVerification") = JStr s -> in_strs spec_uv s = false) ->
  parse_auth_options_json O (inr (JObj m)) = Err (Lib InvalidJSONStructure).
Proof.
  intros Hc H. unfold parse_auth_options_json, load_obj, get_str. cbn [bind].
  change (s2l "challenge") with (jstr "challenge"). rewrite Hc. cbn [bind].
  change (s2l "userVerification") with (jstr "userVerification").
  destruct (jget_none m (jstr "userVerification")) as [| | | |s| |] eqn:E; try reflexivity. cbn [bind].
  rewrite enum_lookup_bad; [reflexivity|]. destruct enums_are_spec as (_ & -> & _). apply H. reflexivity.
Qed.

Theorem options_not_object O j : (forall m, j <> JObj m) ->
  parse_auth_options_json O (inr j) = Err (Lib InvalidJSONStructure) /\
  parse_reg_options_json O (inr j) = Err (Lib InvalidJSONStructure).
Proof.
  intros H. unfold parse_auth_options_json, parse_reg_options_json, load_obj. cbn [bind].
  destruct j; try (split; reflexivity). exfalso. eapply H. reflexivity.
Qed.

(* ---------- creation options ---------- *)
Lemma members_ok_app checks a b : members_ok checks (a ++ b) = members_ok checks a && members_ok checks b.
Proof. induction a as [|[k v] a IH]; cbn [app members_ok]; [reflexivity|]. rewrite IH, andb_assoc. reflexivity. Qed.

Lemma jget_skip_opt {A} key (f : A -> json) o rest k : str_eqb (jstr key) k = false ->
  jget (opt_kv key f o ++ rest) k = jget rest k.
Proof. intros H. destruct o; cbn [opt_kv app jget]; [rewrite H|]; reflexivity. Qed.
Lemma jget_hit_opt {A} key (f : A -> json) o rest :
  jget (opt_kv key f o ++ rest) (jstr key) = match o with Some a => Some (f a) | None => jget rest (jstr key) end.
Proof. destruct o; cbn [opt_kv app jget]; [rewrite Tactics.list_eqb_refl|]; reflexivity. Qed.
Lemma jget_skip_cons k0 v rest k : str_eqb k0 k = false -> jget ((k0, v) :: rest) k = jget rest k.
Proof. intros H. cbn [jget]. rewrite H. reflexivity. Qed.
Lemma jget_hit_cons k v rest : jget ((k, v) :: rest) k = Some v.
Proof. cbn [jget]. rewrite Tactics.list_eqb_refl. reflexivity. Qed.

Definition sel_wf (s : auth_sel) : Prop :=
  match as_attachment s with Some a => in_strs spec_attachment a = true | None => True end /\
  match as_resident_key s with Some a => in_strs spec_resident_key a = true | None => True end /\
  match as_uv s with Some a => in_strs spec_uv a = true | None => True end.

Record creation_wf (o : creation_options) : Prop := {
  cw_uid : bytes_ok (co_user_id o) = true;
  cw_ch : bytes_ok (co_challenge o) = true;
  cw_params : Forall (fun p => fst p = public_key_t /\ cose_alg_ok (snd p) = true) (co_params o);
  cw_excl : match co_exclude o with Some l => Forall desc_wf l | None => True end;
  cw_sel : match co_auth_sel o with Some s => sel_wf s | None => True end;
  cw_att : match co_attestation o with Some a => in_strs spec_attestation a = true | None => True end;
  cw_hints : match co_hints o with Some h => forallb (in_strs spec_hints) h = true | None => True end }.

Lemma opt_member_ok {A} checks key (f : A -> json) (o : option A) chk :
  find (fun c => str_eqb (jstr key) (s2l (fst c))) checks = Some (key, chk) ->
  members_ok checks (opt_kv key f o) = match o with Some a => chk (f a) | None => true end.
Proof. intros H. destruct o; cbn [opt_kv members_ok]; [rewrite H; cbn [snd]; apply andb_true_r|reflexivity]. Qed.

Lemma strs_json_ok l h : forallb (in_strs l) h = true -> forallb (str_in l) (map JStr h) = true.
Proof. induction h as [|x h IH]; cbn [forallb map]; [reflexivity|]. intros H. apply andb_true_iff in H as [A B]. rewrite IH by exact B. cbn [str_in]. unfold in_strs in A. rewrite A. reflexivity. Qed.

Lemma params_schema_ok ps : Forall (fun p => fst p = public_key_t /\ cose_alg_ok (snd p) = true) ps ->
  forallb (obj_ok ["type"; "alg"]%string [("type", fun j => jstr_is j (s2l "public-key")); ("alg", is_int)]%string)
          (map (fun p => JObj [(jstr "type", JStr (fst p)); (jstr "alg", JInt (snd p))]) ps) = true.
Proof.
  induction 1 as [|p ps [Ht Ha] Hl IH]; cbn [map forallb]; [reflexivity|]. rewrite IH, andb_true_r.
  unfold obj_ok, has_all. rewrite Ht. unfold public_key_t. eval_consts. crunch. cbn [jstr_is str_eqb list_eqb Z.eqb Pos.eqb andb is_int]. reflexivity.
Qed.

Lemma sel_schema_ok s : sel_wf s ->
  obj_ok []%string
    [("authenticatorAttachment", str_in spec_attachment); ("residentKey", str_in spec_resident_key);
     ("requireResidentKey", fun j => match j with JBool _ => true | _ => false end); ("userVerification", str_in spec_uv)]%string
    (auth_sel_json s) = true.
Proof.
  intros (Ha & Hr & Hu). unfold auth_sel_json, obj_ok, has_all. cbn [forallb andb].
  destruct (as_attachment s) as [a|]; destruct (as_resident_key s) as [r|]; destruct (as_require_rk s) as [b|]; destruct (as_uv s) as [u|];
    cbn [opt_kv app]; eval_consts; crunch; cbn [str_in];
    repeat match goal with H : in_strs _ _ = true |- _ => unfold in_strs in H; rewrite H; clear H end; reflexivity.
Qed.

Theorem creation_schema_ok o : creation_wf o -> creation_schema (creation_options_json o) = true.
Proof.
  intros [Huid Hch Hps Hex Hsel Hatt Hh]. unfold creation_options_json, creation_schema.
  pose proof (enc_is_b64url _ Huid) as Hb1. pose proof (enc_is_b64url _ Hch) as Hb2.
  pose proof (params_schema_ok _ Hps) as Hp.
  remember (map (fun p => JObj [(jstr "type", JStr (fst p)); (jstr "alg", JInt (snd p))]) (co_params o)) as PJ eqn:EPJ.
  remember (obj_ok ["type"; "alg"]%string [("type", fun j => jstr_is j (s2l "public-key")); ("alg", is_int)]%string) as PS eqn:EPS.
  unfold obj_ok at 1.
  apply andb_true_iff. split.
  - unfold has_all. eval_consts. crunch. reflexivity.
  - rewrite !members_ok_app.
    match goal with |- context [members_ok ?c _] => set (checks := c) end.
    assert (F1 : members_ok checks (opt_kv "timeout" JInt (co_timeout o)) = true).
    { erewrite opt_member_ok by (subst checks; eval_consts; repeat (progress (cbn [find fst str_eqb list_eqb Z.eqb Pos.eqb andb]; eval_consts)); reflexivity). destruct (co_timeout o); reflexivity. }
    assert (F2 : members_ok checks (opt_kv "excludeCredentials" (fun l => JArr (map descriptor_json l)) (co_exclude o)) = true).
    { erewrite opt_member_ok by (subst checks; eval_consts; repeat (progress (cbn [find fst str_eqb list_eqb Z.eqb Pos.eqb andb]; eval_consts)); reflexivity). destruct (co_exclude o) as [l|]; [|reflexivity].
      cbn [arr_of]. apply descriptors_schema_ok, Hex. }
    assert (F3 : members_ok checks (opt_kv "authenticatorSelection" auth_sel_json (co_auth_sel o)) = true).
    { erewrite opt_member_ok by (subst checks; eval_consts; repeat (progress (cbn [find fst str_eqb list_eqb Z.eqb Pos.eqb andb]; eval_consts)); reflexivity). destruct (co_auth_sel o) as [s|]; [|reflexivity]. apply sel_schema_ok, Hsel. }
    assert (F4 : members_ok checks (opt_kv "attestation" JStr (co_attestation o)) = true).
    { erewrite opt_member_ok by (subst checks; eval_consts; repeat (progress (cbn [find fst str_eqb list_eqb Z.eqb Pos.eqb andb]; eval_consts)); reflexivity). destruct (co_attestation o) as [a|]; [|reflexivity]. exact Hatt. }
    assert (F5 : members_ok checks (opt_kv "hints" (fun l => JArr (map JStr l)) (co_hints o)) = true).
    { erewrite opt_member_ok by (subst checks; eval_consts; repeat (progress (cbn [find fst str_eqb list_eqb Z.eqb Pos.eqb andb]; eval_consts)); reflexivity). destruct (co_hints o) as [h|]; [|reflexivity]. cbn [arr_of]. apply strs_json_ok, Hh. }
    rewrite F1, F2, F3, F4, F5. rewrite !andb_true_r. subst checks.
    eval_consts. crunch. rewrite Hb2. cbn [andb arr_of].
    rewrite Hp. rewrite andb_true_r.
    apply andb_true_iff. split.
    + destruct (opt_nonempty (co_rp_id o)) as [i|]; cbn [app]; unfold obj_ok, has_all; eval_consts; crunch; reflexivity.
    + unfold obj_ok, has_all. eval_consts. crunch. rewrite Hb1. reflexivity.
Qed.

(* ---------- refusal of ill-formed creation options ---------- *)
Definition j_is_obj (j : json) := match j with JObj _ => true | _ => false end.
Definition j_is_arr (j : json) := match j with JArr _ => true | _ => false end.
Definition sub (m : list (pystr * json)) (k : string) : list (pystr * json) := match jget_none m (jstr k) with JObj o => o | _ => [] end.

Definition required_ok (m : list (pystr * json)) : bool :=
  j_is_obj (jget_none m (jstr "rp")) && is_str (jget_none (sub m "rp") (jstr "name")) &&
  j_is_obj (jget_none m (jstr "user")) && is_str (jget_none (sub m "user") (jstr "id")) &&
  is_str (jget_none (sub m "user") (jstr "name")) && is_str (jget_none (sub m "user") (jstr "displayName")) &&
  str_in spec_attestation (jget_none m (jstr "attestation")) &&
  is_str (jget_none m (jstr "challenge")) && j_is_arr (jget_none m (jstr "pubKeyCredParams")).

Definition only_ijs {A} (r : res A) : Prop := match r with Ok _ | Err (Lib InvalidJSONStructure) => True | _ => False end.

Lemma parse_auth_sel_only_ijs v : only_ijs (parse_auth_sel v).
Proof.
  unfold parse_auth_sel. destruct v as [| | | | | |s]; try exact I.
  destruct (jget_none s (jstr "authenticatorAttachment")) eqn:E1; cbn [bind];
    try (destruct (enum_lookup attachment_enum _); cbn [bind IJS only_ijs]; [|exact I]);
  (destruct (jget_none s (jstr "residentKey")) eqn:E2; cbn [bind];
    try (destruct (enum_lookup resident_key_enum _); cbn [bind IJS only_ijs]; [|exact I]);
  (destruct (jget_none s (jstr "requireResidentKey")) eqn:E3; cbn [bind IJS only_ijs]; try exact I;
  (destruct (jget_none s (jstr "userVerification")) eqn:E4; cbn [bind];
    try (destruct (enum_lookup user_verification_enum _); cbn [bind IJS only_ijs]); exact I))).
Qed.

Theorem creation_refuses O m : required_ok m = false ->
  parse_reg_options_json O (inr (JObj m)) = Err (Lib InvalidJSONStructure).
Proof.
  unfold required_ok, sub, parse_reg_options_json, load_obj, get_obj, get_str. cbn [bind]. intros H.
  repeat match goal with |- context [s2l ?x] => change (s2l x) with (jstr x) end.
  destruct (jget_none m (jstr "rp")) as [| | | | | |rp]; try reflexivity. cbn [bind j_is_obj andb] in *.
  destruct (jget_none rp (jstr "id")) as [| | | |rid| |]; try reflexivity; cbn [bind].
  all: destruct (jget_none rp (jstr "name")) as [| | | |rname| |]; try reflexivity; cbn [bind is_str andb] in *.
  all: destruct (jget_none m (jstr "user")) as [| | | | | |user]; try reflexivity; cbn [bind j_is_obj andb] in *.
  all: destruct (jget_none user (jstr "id")) as [| | | |uid| |]; try reflexivity; cbn [bind is_str andb] in *.
  all: destruct (jget_none user (jstr "name")) as [| | | |uname| |]; try reflexivity; cbn [bind is_str andb] in *.
  all: destruct (jget_none user (jstr "displayName")) as [| | | |udn| |]; try reflexivity; cbn [bind is_str andb] in *.
  all: destruct (jget_none m (jstr "attestation")) as [| | | |att| |]; try reflexivity; cbn [bind str_in] in *.
  all: destruct (enum_lookup attestation_pref_enum (JStr att)) as [a|] eqn:Ea; [|reflexivity]; cbn [bind].
  all: assert (Hatt : existsb (fun t => str_eqb att (s2l t)) spec_attestation = true)
         by (unfold enum_lookup in Ea; rewrite enum_has_in in Ea; destruct enums_are_spec as (_ & _ & _ & _ & E5 & _); rewrite E5 in Ea;
             unfold in_strs in Ea; destruct (existsb _ spec_attestation); [reflexivity|discriminate]).
  all: rewrite Hatt in H; cbn [andb] in H.
  all: pose proof (parse_auth_sel_only_ijs (jget_none m (jstr "authenticatorSelection"))) as Hs.
  all: destruct (parse_auth_sel (jget_none m (jstr "authenticatorSelection"))) as [s|[[]| |]]; cbn [only_ijs] in Hs; try contradiction; cbn [bind]; try reflexivity.
  all: destruct (jget_none m (jstr "challenge")) as [| | | |ch| |]; try reflexivity; cbn [bind is_str andb] in *.
  all: destruct (jget_none m (jstr "pubKeyCredParams")) as [| | | | |ps|]; try reflexivity; cbn [j_is_arr] in H; discriminate.
Qed.

(* ---------- round trip of creation options ---------- *)
Definition norm_sel (s : auth_sel) : auth_sel :=
  {| as_attachment := as_attachment s; as_resident_key := as_resident_key s;
     as_require_rk := Some (match as_require_rk s with Some b => b | None => false end);
     as_uv := Some (match as_uv s with Some u => u | None => s2l "preferred" end) |}.
Definition norm_creation (o : creation_options) : creation_options :=
  {| co_rp_id := opt_nonempty (co_rp_id o); co_rp_name := co_rp_name o; co_user_id := co_user_id o; co_user_name := co_user_name o;
     co_display_name := co_display_name o; co_challenge := co_challenge o; co_params := co_params o; co_timeout := co_timeout o;
     co_exclude := option_map (map norm_desc) (co_exclude o); co_auth_sel := option_map norm_sel (co_auth_sel o);
     co_attestation := co_attestation o; co_hints := co_hints o |}.

Lemma parse_params_roundtrip ps : Forall (fun p => fst p = public_key_t /\ cose_alg_ok (snd p) = true) ps ->
  parse_params (map (fun p => JObj [(jstr "type", JStr (fst p)); (jstr "alg", JInt (snd p))]) ps) = Ok ps.
Proof.
  induction 1 as [|[t a] ps [Ht Ha] Hl IH]; [reflexivity|]. cbn [map parse_params fst snd] in *.
  rewrite jget_skip_cons by (vm_compute; reflexivity). rewrite jget_hit_cons. rewrite Ha, IH. cbn [bind]. subst t. reflexivity.
Qed.

Lemma map_opt_hints h : forallb (in_strs spec_hints) h = true -> map_opt (enum_lookup hint_enum) (map JStr h) = Some h.
Proof.
  induction h as [|x h IH]; cbn [forallb map map_opt]; [reflexivity|]. intros H. apply andb_true_iff in H as [A B].
  rewrite IH by exact B. rewrite enum_lookup_ok; [reflexivity|]. destruct enums_are_spec as (_ & _ & _ & _ & _ & ->). exact A.
Qed.

Lemma jget_hit_opt_last {A} key (f : A -> json) o : jget (opt_kv key f o) (jstr key) = option_map f o.
Proof. destruct o; cbn [opt_kv jget option_map]; [rewrite Tactics.list_eqb_refl|]; reflexivity. Qed.
Lemma jget_skip_opt_last {A} key (f : A -> json) o k : str_eqb (jstr key) k = false -> jget (opt_kv key f o) k = None.
Proof. intros H. destruct o; cbn [opt_kv jget]; [rewrite H|]; reflexivity. Qed.

Ltac jg := unfold jget_none; cbn [app];
  repeat first [ rewrite jget_hit_cons | rewrite jget_skip_cons by (vm_compute; reflexivity)
               | rewrite jget_hit_opt | rewrite jget_skip_opt by (vm_compute; reflexivity)
               | rewrite jget_hit_opt_last | rewrite jget_skip_opt_last by (vm_compute; reflexivity) ]; cbn [option_map].

Lemma parse_auth_sel_roundtrip s : sel_wf s -> parse_auth_sel (auth_sel_json s) = Ok (Some (norm_sel s)).
Proof.
  intros (Ha & Hr & Hu). unfold parse_auth_sel, auth_sel_json, norm_sel.
  destruct enums_are_spec as (_ & E2 & E3 & E4 & _).
  destruct (as_attachment s) as [a|]; destruct (as_resident_key s) as [r|]; destruct (as_require_rk s) as [b|]; destruct (as_uv s) as [u|];
    cbn [opt_kv]; jg; cbn [jget];
    repeat match goal with
    | H : in_strs spec_attachment ?a = true |- _ => rewrite (enum_lookup_ok attachment_enum a) by (rewrite E3; exact H); clear H
    | H : in_strs spec_resident_key ?a = true |- _ => rewrite (enum_lookup_ok resident_key_enum a) by (rewrite E4; exact H); clear H
    | H : in_strs spec_uv ?a = true |- _ => rewrite (enum_lookup_ok user_verification_enum a) by (rewrite E2; exact H); clear H
    end; cbn [bind]; reflexivity.
Qed.

Theorem creation_roundtrip O o : creation_wf o -> (exists a, co_attestation o = Some a) ->
  parse_reg_options_json O (inr (creation_options_json o)) = Ok (norm_creation o).
Proof.
  intros [Huid Hch Hps Hex Hsel Hatt Hh] [att Eatt]. rewrite Eatt in Hatt.
  unfold parse_reg_options_json, load_obj, creation_options_json, get_obj, get_str. cbn [bind].
  repeat match goal with |- context [s2l ?x] => change (s2l x) with (jstr x) end.
  pose proof (b64_roundtrip (co_user_id o) 0 Huid) as R1. cbn [repeat] in R1. rewrite app_nil_r in R1.
  pose proof (b64_roundtrip (co_challenge o) 0 Hch) as R2. cbn [repeat] in R2. rewrite app_nil_r in R2.
  destruct enums_are_spec as (_ & _ & _ & _ & E5 & _).
  rewrite Eatt. jg. cbn [bind].
  destruct (opt_nonempty (co_rp_id o)) as [rid|] eqn:Erid; destruct (co_auth_sel o) as [s|] eqn:Es; destruct (co_exclude o) as [ex|] eqn:Eex;
    destruct (co_timeout o) as [t|] eqn:Et; destruct (co_hints o) as [h|] eqn:Ehh;
    jg; cbn [jget bind json_int parse_cred_list parse_auth_sel];
    rewrite (enum_lookup_ok attestation_pref_enum att) by (rewrite E5; exact Hatt); cbn [bind];
    try rewrite (parse_auth_sel_roundtrip s Hsel); cbn [bind];
    rewrite (parse_params_roundtrip _ Hps); cbn [bind];
    try rewrite (parse_descriptors_roundtrip ex Hex); cbn [bind];
    try rewrite (map_opt_hints h Hh); cbn [bind wrap];
    rewrite R1; cbn [bind]; rewrite R2; cbn [bind]; unfold norm_creation; rewrite ?Erid, ?Es, ?Eex, ?Et, ?Ehh, ?Eatt; reflexivity.
Qed.

(* ---------- every options object produced by option generation is well-formed ---------- *)
From PW Require Import Proofs.OptionsProofs.
Record reg_args_wf (a : reg_args) : Prop := {
  gw_uid : match ra_user_id a with Some u => bytes_ok u = true | None => True end;
  gw_ch : match ra_challenge a with Some c => bytes_ok c = true | None => True end;
  gw_algs : match ra_algs a with Some l => forallb cose_alg_ok l = true | None => True end;
  gw_excl : match ra_exclude a with Some l => Forall desc_wf l | None => True end;
  gw_sel : match ra_auth_sel a with Some s => sel_wf s | None => True end;
  gw_att : in_strs spec_attestation (ra_attestation a) = true;
  gw_hints : match ra_hints a with Some h => forallb (in_strs spec_hints) h = true | None => True end }.

Lemma opt_nonempty_some {A} (o : option (list A)) l : opt_nonempty o = Some l -> o = Some l.
Proof. unfold opt_nonempty. destruct o as [x|]; [|discriminate]. destruct (is_nil x); [discriminate|]. auto. Qed.

Lemma params_of_wf l : forallb cose_alg_ok l = true -> Forall (fun p => fst p = public_key_t /\ cose_alg_ok (snd p) = true) (params_of l).
Proof.
  induction l as [|x l IH]; cbn [forallb params_of map]; [constructor|]. intros H. apply andb_true_iff in H as [A B].
  constructor; [split; [reflexivity|exact A]|apply IH, B].
Qed.

Lemma fix_sel_wf s : sel_wf s -> sel_wf (fix_sel s).
Proof.
  unfold sel_wf, fix_sel. intros H.
  destruct (match as_resident_key s with Some rk => str_eqb rk (s2l "required") | None => false end); cbn; exact H.
Qed.

Theorem generated_creation_options_wf draw a n o n' :
  (forall i, bytes_ok (draw i) = true) -> reg_args_wf a -> gen_reg draw a n = Ok (o, n') ->
  creation_wf o /\ exists att, co_attestation o = Some att.
Proof.
  intros Hd [Wu Wc Wa We Ws Wt Wh] G. apply gen_reg_spec in G.
  destruct G as (_ & _ & _ & Erp & _ & _ & Eto & Eat & Eh & _ & Eps & Eex & _ & Euid & Ech & Esel).
  split; [|eauto]. constructor.
  - rewrite Euid. destruct (opt_nonempty (ra_user_id a)) as [u|] eqn:E; [|apply Hd]. apply opt_nonempty_some in E. rewrite E in Wu. exact Wu.
  - rewrite Ech. destruct (opt_nonempty (ra_challenge a)) as [c|] eqn:E; [|apply Hd]. apply opt_nonempty_some in E. rewrite E in Wc. exact Wc.
  - rewrite Eps. destruct (opt_nonempty (ra_algs a)) as [l|] eqn:E.
    + apply opt_nonempty_some in E. rewrite E in Wa. apply params_of_wf, Wa.
    + apply params_of_wf. vm_compute. reflexivity.
  - rewrite Eex. destruct (opt_nonempty (ra_exclude a)) as [l|] eqn:E; [|constructor]. apply opt_nonempty_some in E. rewrite E in We. exact We.
  - rewrite Esel. destruct (ra_auth_sel a) as [s|]; cbn [option_map]; [apply fix_sel_wf, Ws|exact I].
  - rewrite Eat. exact Wt.
  - rewrite Eh. exact Wh.
Qed.
