(* Per-format completeness (C03/C05): a statement meeting the declared rules of its format IS accepted.
   Together with FormatProofs (soundness) each format verifier is characterised by an iff. *)
From Coq Require Import ZArith List Bool Lia String ZifyBool.
From PW Require Import Model.Base Model.SigTypes Model.Json Model.Base64 Model.Cbor Model.AuthData
  Model.Oracles Model.Cose Model.SigAlg Model.Tpm Model.Formats Generated.Constants Spec.FormatSpec
  Proofs.Tactics Proofs.RegProofs Proofs.FormatProofs.
Import ListNotations.
Open Scope Z_scope.

Lemma need_true c : c = true -> need c = Ok tt.
Proof. intros ->. reflexivity. Qed.
Lemma unset_negb f : unset f = false -> negb (unset f) = true.
Proof. intros ->. reflexivity. Qed.
Lemma signed_verify_or_irr O k alg sg msg : Signed O k alg sg msg -> verify_or_irr O k alg sg msg = Ok tt.
Proof. unfold Signed, verify_or_irr. intros ->. reflexivity. Qed.
Lemma chain_ok_irr r : r = Ok tt -> chain_or_irr r = Ok tt.
Proof. intros ->. reflexivity. Qed.

Theorem verify_packed_complete O now st ad cdj pk roots :
  PackedOk O now st ad cdj pk roots -> verify_packed O now st ad cdj pk roots = Ok tt.
Proof.
  intros [Hs Ha Hm]. unfold verify_packed.
  rewrite (need_true _ (unset_negb _ Hs)), (need_true _ (unset_negb _ Ha)). cbn [bind].
  destruct Hm as [[Hx (x5c & c & E1 & E2 & E3 & E4)]|[Hx (dk & k & E1 & E2 & E3 & E4)]].
  - rewrite Hx. cbn [negb]. rewrite E1. cbn [bind]. rewrite (chain_ok_irr _ E2). cbn [bind]. rewrite E3. cbn [bind].
    apply signed_verify_or_irr, E4.
  - rewrite Hx. cbn [negb]. rewrite E1. cbn [bind]. rewrite E2. cbn [bind need guard]. rewrite E3. cbn [bind].
    apply signed_verify_or_irr, E4.
Qed.

Corollary verify_packed_iff O now st ad cdj pk roots :
  verify_packed O now st ad cdj pk roots = Ok tt <-> PackedOk O now st ad cdj pk roots.
Proof. split; [apply verify_packed_sound|apply verify_packed_complete]. Qed.

(* ---------------- fido-u2f ---------------- *)
Lemma x5c_list_set v l d : x5c_list v = Ok (d :: l) -> forall f, fld f = v -> unset f = false.
Proof.
  intros H f <-. unfold x5c_list in H. unfold unset, fld in *. destruct f as [w|]; [|discriminate].
  destruct w as [| | |cl| | | |]; try discriminate. destruct cl as [|c cl]; [cbn in H; discriminate|reflexivity].
Qed.

Theorem verify_fido_u2f_complete O now st cdj rph cid pk aaguid roots :
  U2fOk O now st cdj rph cid pk aaguid roots -> verify_fido_u2f O now st cdj rph cid pk aaguid roots = Ok tt.
Proof.
  intros [Hs (der & c & E1 & E2 & E3 & (x & y & Ek) & alg & crv & xb & yb & E4 & Ea & Ec & E5) Hag].
  unfold verify_fido_u2f.
  rewrite (need_true _ (unset_negb _ Hs)). cbn [bind].
  rewrite (need_true _ (unset_negb _ (x5c_list_set _ _ _ E1 _ eq_refl))). cbn [bind].
  rewrite E1. cbn [bind]. replace (negb (1 <? len [der])) with true by reflexivity. cbn [need guard bind].
  rewrite (chain_ok_irr _ E2). cbn [bind]. rewrite Hag. cbn [bind].
  rewrite (need_true _ (proj2 (str_eqb_eq _ _) eq_refl)). cbn [bind hd_bytes]. rewrite E3. cbn [bind].
  rewrite Ek. replace (1 =? 1) with true by reflexivity. cbn [need guard bind]. rewrite E4. cbn [bind].
  rewrite ALG_ES256_val, CRV_P256_val. rewrite Ea, Ec. cbn [andb need guard bind as_bytes].
  rewrite <- Ek. apply signed_verify_or_irr, E5.
Qed.

Corollary verify_fido_u2f_iff O now st cdj rph cid pk aaguid roots :
  verify_fido_u2f O now st cdj rph cid pk aaguid roots = Ok tt <-> U2fOk O now st cdj rph cid pk aaguid roots.
Proof. split; [apply verify_fido_u2f_sound|apply verify_fido_u2f_complete]. Qed.

(* ---------------- tpm ---------------- *)
Theorem check_aik_cert_complete c : AikOk c -> check_aik_cert c = Ok tt.
Proof.
  intros [Hv Hs (attrs & Esan & N1 & N2 & N3 & Hm) (rest & Eeku) Hca]. unfold check_aik_cert.
  rewrite Hv. replace (3 =? 3) with true by reflexivity. cbn [need guard bind].
  replace (negb (0 <? c_subject_len c)) with true by lia. cbn [need guard bind].
  rewrite Esan.
  assert (T : forall l : pystr, l <> [] -> negb (match l with [] => true | _ => false end) = true) by (intros [|? ?]; [congruence|reflexivity]).
  rewrite (T _ N1), (T _ N2), (T _ N3). cbn [andb need guard bind]. rewrite Hm. cbn [need guard bind].
  rewrite Eeku. rewrite (proj2 (str_eqb_eq _ _) eq_refl). cbn [need guard bind]. rewrite Hca. reflexivity.
Qed.

Theorem verify_tpm_complete O now st ad cdj pk roots :
  TpmOk O now st ad cdj pk roots -> verify_tpm O now st ad cdj pk roots = Ok tt.
Proof.
  intros [Hv (M1 & M2 & M3 & M4 & M5) (x5c & pa_raw & ci_raw & pa & dk & ci & c & ph & E1 & E2 & Epa & Eci & E3 & E4 & Ekey & E5 & Emag & Eextra & Eph & Ena & Ename & Ec & Esig & Eaik)].
  unfold verify_tpm.
  rewrite (need_true _ (unset_negb _ M1)), (need_true _ (unset_negb _ M2)), (need_true _ (unset_negb _ M3)),
          (need_true _ (unset_negb _ M4)), (need_true _ (unset_negb _ M5)). cbn [bind].
  rewrite Hv. cbn [cbor_eq_text]. rewrite (proj2 (bytes_eqb_eq _ _) eq_refl). cbn [need guard bind].
  rewrite E1. cbn [bind]. rewrite (chain_ok_irr _ E2). cbn [bind].
  rewrite Epa, Eci. cbn [as_bytes_stmt bind]. rewrite E3. cbn [bind]. rewrite E4. cbn [bind].
  assert (TAIL : forall r : res unit, r = Ok tt ->
    (r ;;;
     let* ci0 := parse_cert_info ci_raw in
     need (be_int (ci_magic ci0) =? 4283712327) ;;;
     let att_to_be_signed := ad ++ hash_by_alg O cdj None in
     let h := hash_by_alg O att_to_be_signed (alg_int (fld (st_alg st))) in
     need (bytes_eqb (ci_extra_data ci0) h) ;;;
     let* ph0 := tpm_name_hash O pa_raw (pa_name_alg pa) in
     need (String.eqb (ci_name_alg ci0) (pa_name_alg pa)) ;;;
     need (bytes_eqb (ci_name_alg_bytes ci0 ++ ph0) (ci_name ci0)) ;;;
     let* c0 := load_cert O (hd_bytes x5c) in
     verify_or_irr O (c_key c0) (fld (st_alg st)) (fld (st_sig st)) ci_raw ;;;
     check_aik_cert c0) = Ok tt).
  { intros r ->. cbn [bind]. rewrite E5. cbn [bind]. rewrite Emag. replace (4283712327 =? 4283712327) with true by reflexivity.
    cbn [need guard bind]. cbv zeta. rewrite Eextra. rewrite (proj2 (bytes_eqb_eq _ _) eq_refl). cbn [need guard bind].
    rewrite Eph. cbn [bind]. rewrite Ena. rewrite String.eqb_refl. cbn [need guard bind].
    rewrite Ename. rewrite (proj2 (bytes_eqb_eq _ _) eq_refl). cbn [need guard bind].
    rewrite Ec. cbn [bind]. rewrite (signed_verify_or_irr _ _ _ _ _ Esig). cbn [bind]. exact Eaik. }
  apply TAIL.
  destruct (pa_params pa) as [sym sch kb expo|sym sch crv kdf]; destruct dk as [a0 c0 x0|a0 c0 x0 y0|a0 n0 e0]; try contradiction.
  - destruct n0; try contradiction. destruct e0; try contradiction. destruct Ekey as [-> Ee].
    rewrite (proj2 (bytes_eqb_eq _ _) eq_refl). cbn [need guard bind as_bytes]. cbv zeta. rewrite Ee.
    rewrite Z.eqb_refl. reflexivity.
  - destruct x0; try contradiction. destruct y0; try contradiction. destruct Ekey as [-> (c0' & Ecc & Eq)].
    cbn [as_bytes bind]. rewrite (proj2 (bytes_eqb_eq _ _) eq_refl). cbn [need guard bind]. rewrite Ecc, Eq. reflexivity.
Qed.

Corollary verify_tpm_iff O now st ad cdj pk roots :
  verify_tpm O now st ad cdj pk roots = Ok tt <-> TpmOk O now st ad cdj pk roots.
Proof. split; [apply verify_tpm_sound|apply verify_tpm_complete]. Qed.
Corollary check_aik_cert_iff c : check_aik_cert c = Ok tt <-> AikOk c.
Proof. split; [apply check_aik_cert_sound|apply check_aik_cert_complete]. Qed.

(* ---------------- apple ---------------- *)
Theorem verify_apple_complete O now st ad cdj pk roots builtin :
  AppleOk O now st ad cdj pk roots builtin -> verify_apple O now st ad cdj pk roots builtin = Ok tt.
Proof.
  intros [Hx (x5c & c & v & dk & k & E1 & E2 & E3 & E4 & E5 & E6 & E7 & E8)]. unfold verify_apple.
  rewrite (need_true _ (unset_negb _ Hx)). cbn [bind]. rewrite E1. cbn [bind]. rewrite (chain_ok_irr _ E2). cbn [bind].
  rewrite E3. cbn [bind]. rewrite E4. rewrite E5. rewrite (proj2 (bytes_eqb_eq _ _) eq_refl). cbn [need guard bind].
  rewrite E6. cbn [bind]. rewrite E7. cbn [bind]. rewrite E8. rewrite (proj2 (bytes_eqb_eq _ _) eq_refl). reflexivity.
Qed.
Corollary verify_apple_iff O now st ad cdj pk roots builtin :
  verify_apple O now st ad cdj pk roots builtin = Ok tt <-> AppleOk O now st ad cdj pk roots builtin.
Proof. split; [apply verify_apple_sound|apply verify_apple_complete]. Qed.

(* ---------------- android-key ---------------- *)
Lemma In_existsb_bytes x l : In x l -> existsb (bytes_eqb x) l = true.
Proof. intros H. apply existsb_exists. exists x. split; [exact H|apply bytes_eqb_eq; reflexivity]. Qed.

Theorem verify_android_key_complete O now st ad cdj pk roots builtin :
  AndroidKeyOk O now st ad cdj pk roots builtin -> verify_android_key O now st ad cdj pk roots builtin = Ok tt.
Proof.
  intros [(M1 & M2 & M3) (x5c & rootc & c & dk & k & kd & E1 & E2 & E3 & E4 & E5 & E6 & E7 & E8 & E9 & E10 & K1 & K2 & K3 & K4 & K5)].
  unfold verify_android_key.
  rewrite (need_true _ (unset_negb _ M1)), (need_true _ (unset_negb _ M2)), (need_true _ (unset_negb _ M3)). cbn [bind].
  rewrite E1. cbn [bind]. rewrite E2. cbn [bind]. rewrite (chain_ok_irr _ E3). cbn [bind].
  rewrite (In_existsb_bytes _ _ E4). cbn [need guard bind]. cbv zeta. rewrite E5. cbn [bind].
  unfold att_to_be_signed in E6. rewrite (signed_verify_or_irr _ _ _ _ _ E6). cbn [bind]. rewrite E7. cbn [bind]. rewrite E8. cbn [bind].
  rewrite E9. rewrite (proj2 (bytes_eqb_eq _ _) eq_refl). cbn [need guard bind]. rewrite E10.
  rewrite K1. rewrite (proj2 (bytes_eqb_eq _ _) eq_refl). cbn [need guard bind]. rewrite K2, K3, K4, K5. reflexivity.
Qed.
Corollary verify_android_key_iff O now st ad cdj pk roots builtin :
  verify_android_key O now st ad cdj pk roots builtin = Ok tt <-> AndroidKeyOk O now st ad cdj pk roots builtin.
Proof. split; [apply verify_android_key_sound|apply verify_android_key_complete]. Qed.

(* ---------------- android-safetynet ---------------- *)
Lemma jstr_is_refl s : jstr_is (JStr s) s = true.
Proof. unfold jstr_is. apply str_eqb_eq. reflexivity. Qed.

Theorem verify_safetynet_complete O now st ad cdj roots builtin :
  SafetyNetOk O now st ad cdj roots builtin -> verify_safetynet O now st ad cdj roots builtin = Ok tt.
Proof.
  intros [(M1 & M2) (resp & p0 & p1 & p2 & hb & hj & pb & pj & x5c_txt & x5c & c & sg & ts & cn & cns &
    Er & Easc & Es & Ext & Ex & Ets & Ehb & Ehj & Epb & Epj & Enonce & (bi & Ebi & Tbi) & Etok & Ec & Hne & Ecn & Hcn & Ech & Esg & Ealg & Esig)].
  unfold verify_safetynet.
  rewrite (need_true _ (unset_negb _ M1)), (need_true _ (unset_negb _ M2)). cbn [bind].
  rewrite Er, Easc. cbn [negb]. rewrite Es. rewrite Ehb. cbn [bind]. rewrite Ehj. cbn [bind]. rewrite Epb. cbn [bind].
  rewrite Epj. cbn [bind]. cbv zeta. rewrite Enonce. rewrite jstr_is_refl. cbn [need guard bind].
  rewrite Ext. cbn [bind]. rewrite Ex. cbn [bind]. rewrite Ebi, Tbi. cbn [need guard bind].
  rewrite Ets. cbn [bind]. rewrite Etok. cbn [need guard bind].
  destruct x5c as [|d x5c']; [congruence|]. cbn [hd_bytes] in Ec. rewrite Ec. cbn [bind]. rewrite Ecn.
  subst cn. rewrite (proj2 (str_eqb_eq _ _) eq_refl). cbn [need guard bind].
  rewrite (chain_ok_irr _ Ech). cbn [bind]. rewrite Esg. cbn [bind]. rewrite Ealg. rewrite jstr_is_refl. cbn [need guard bind].
  rewrite ALG_RS256_val. apply signed_verify_or_irr, Esig.
Qed.
Corollary verify_safetynet_iff O now st ad cdj roots builtin :
  verify_safetynet O now st ad cdj roots builtin = Ok tt <-> SafetyNetOk O now st ad cdj roots builtin.
Proof. split; [apply verify_safetynet_sound|apply verify_safetynet_complete]. Qed.

(* ---------------- the dispatch: a statement is accepted iff it meets the rules of ITS format ---------------- *)
From PW Require Import Model.VerifyReg.

Definition StatementRules (O : oracles) (P : reg_policy) (fmt : bytes) (st : att_stmt) (adr cdj : bytes)
    (ad : auth_data) (att : att_cred) : Prop :=
  let roots := roots_for (rp_roots P) fmt in
  let pk := ac_pubkey att in
  (fmt = s2l "none" /\ stmt_any_set st = false) \/
  (fmt = s2l "fido-u2f" /\ U2fOk O (rp_now P) st cdj (ad_rp_hash ad) (ac_cred_id att) pk (ac_aaguid att) roots) \/
  (fmt = s2l "packed" /\ PackedOk O (rp_now P) st adr cdj pk roots) \/
  (fmt = s2l "tpm" /\ TpmOk O (rp_now P) st adr cdj pk roots) \/
  (fmt = s2l "apple" /\ AppleOk O (rp_now P) st adr cdj pk roots (rp_builtin_apple P)) \/
  (fmt = s2l "android-safetynet" /\ SafetyNetOk O (rp_now P) st adr cdj roots (rp_builtin_safetynet P)) \/
  (fmt = s2l "android-key" /\ AndroidKeyOk O (rp_now P) st adr cdj pk roots (rp_builtin_android_key P)).

Ltac fmt_eval := repeat match goal with |- context [fmt_is (s2l ?a) ?b] =>
  let v := eval vm_compute in (fmt_is (s2l a) b) in change (fmt_is (s2l a) b) with v end.

Theorem verify_statement_iff O P fmt st adr cdj ad att :
  verify_statement O P fmt st adr cdj ad att = Ok tt <-> StatementRules O P fmt st adr cdj ad att.
Proof.
  unfold StatementRules. cbv zeta. split.
  - unfold verify_statement. cbv zeta.
    destruct (fmt_is fmt "none") eqn:E0.
    { apply bytes_eqb_eq in E0. intros H. apply need_ok in H. left. split; [exact E0|]. destruct (stmt_any_set st); [discriminate|reflexivity]. }
    destruct (fmt_is fmt "fido-u2f") eqn:E1.
    { apply bytes_eqb_eq in E1. intros H. right. left. split; [exact E1|apply verify_fido_u2f_sound, H]. }
    destruct (fmt_is fmt "packed") eqn:E2.
    { apply bytes_eqb_eq in E2. intros H. do 2 right. left. split; [exact E2|apply verify_packed_sound, H]. }
    destruct (fmt_is fmt "tpm") eqn:E3.
    { apply bytes_eqb_eq in E3. intros H. do 3 right. left. split; [exact E3|apply verify_tpm_sound, H]. }
    destruct (fmt_is fmt "apple") eqn:E4.
    { apply bytes_eqb_eq in E4. intros H. do 4 right. left. split; [exact E4|apply verify_apple_sound, H]. }
    destruct (fmt_is fmt "android-safetynet") eqn:E5.
    { apply bytes_eqb_eq in E5. intros H. do 5 right. left. split; [exact E5|apply verify_safetynet_sound, H]. }
    destruct (fmt_is fmt "android-key") eqn:E6.
    { apply bytes_eqb_eq in E6. intros H. do 6 right. split; [exact E6|apply verify_android_key_sound, H]. }
    discriminate.
  - intros [[-> H]|[[-> H]|[[-> H]|[[-> H]|[[-> H]|[[-> H]|[-> H]]]]]]]; unfold verify_statement; cbv zeta; fmt_eval.
    + rewrite H. reflexivity.
    + apply verify_fido_u2f_complete, H.
    + apply verify_packed_complete, H.
    + apply verify_tpm_complete, H.
    + apply verify_apple_complete, H.
    + apply verify_safetynet_complete, H.
    + apply verify_android_key_complete, H.
Qed.
