(* Further unbounded facts about the base64url codec model (C14): the length arithmetic of every
   length class, the decoder's output always being bytes, and the leniency of the CPython decoder
   (characters outside both alphabets are skipped wherever they stand), which is why the verifiers
   compare `id` with the ENCODING of rawId rather than decoding `id`. *)
From Coq Require Import ZArith List Bool Lia ZifyBool.
From PW Require Import Model.Base Model.Base64 Proofs.Base64Proofs.
Import ListNotations.
Open Scope Z_scope.
Ltac Zify.zify_post_hook ::= Z.to_euclidean_division_equations.

(* ceil(4n/3) characters, for every length class *)
Theorem b64_length b : len (b64url_enc b) = (4 * len b + 2) / 3.
Proof.
  unfold b64url_enc, len.
  induction b as [|x|x y|x y z r IH] using list_ind3.
  - reflexivity.
  - reflexivity.
  - reflexivity.
  - cbn [enc_with length]. rewrite !Nat2Z.inj_succ. rewrite IH. lia.
Qed.

Corollary b64_length_mod4 b : (len (b64url_enc b)) mod 4 <> 1.
Proof. rewrite b64_length. unfold len. lia. Qed.

(* the decoder state invariant: the carried bits fit what is left of the current quad *)
Definition lf_ok (qp lf : Z) : Prop :=
  qp = 0 \/ (qp = 1 /\ 0 <= lf < 64) \/ (qp = 2 /\ 0 <= lf < 16) \/ (qp = 3 /\ 0 <= lf < 4).

Lemma a2b_bytes_ok s : forall qp lf pads b, lf_ok qp lf ->
  a2b s qp lf pads = Some b -> bytes_ok b = true.
Proof.
  induction s as [|c r IH]; intros qp lf pads b Hlf; cbn [a2b].
  - destruct (qp =? 0); [intros [= <-]; reflexivity | discriminate].
  - destruct (c =? 61) eqn:Epad.
    + destruct ((2 <=? qp) && (4 <=? qp + (pads + 1))) eqn:Efin.
      * intros [= <-]. reflexivity.
      * apply IH. exact Hlf.
    + destruct (dec_char c) as [v|] eqn:Ed.
      * apply dec_char_range in Ed.
        destruct (qp =? 0) eqn:E0.
        { apply IH. unfold lf_ok. lia. }
        destruct (qp =? 1) eqn:E1.
        { destruct (a2b r 2 (v mod 16) 0) as [t|] eqn:Et; cbn [option_map]; [|discriminate].
          intros [= <-]. cbn [bytes_ok forallb].
          apply (IH 2 (v mod 16) 0 t) in Et; [|unfold lf_ok; lia].
          unfold bytes_ok in Et. rewrite Et. rewrite andb_true_r.
          unfold byte_ok. unfold lf_ok in Hlf. lia. }
        destruct (qp =? 2) eqn:E2.
        { destruct (a2b r 3 (v mod 4) 0) as [t|] eqn:Et; cbn [option_map]; [|discriminate].
          intros [= <-]. cbn [bytes_ok forallb].
          apply (IH 3 (v mod 4) 0 t) in Et; [|unfold lf_ok; lia].
          unfold bytes_ok in Et. rewrite Et. rewrite andb_true_r.
          unfold byte_ok. unfold lf_ok in Hlf. lia. }
        { destruct (a2b r 0 0 0) as [t|] eqn:Et; cbn [option_map]; [|discriminate].
          intros [= <-]. cbn [bytes_ok forallb].
          apply (IH 0 0 0 t) in Et; [|unfold lf_ok; lia].
          unfold bytes_ok in Et. rewrite Et. rewrite andb_true_r.
          unfold byte_ok. unfold lf_ok in Hlf. lia. }
      * apply IH. exact Hlf.
Qed.

(* whatever text is decoded, the result (if any) is a byte string *)
Theorem b64_dec_bytes s b : b64url_dec s = Ok b -> bytes_ok b = true.
Proof.
  unfold b64url_dec. destruct (is_ascii s); [|discriminate].
  destruct (a2b (s ++ [61; 61; 61]) 0 0 0) as [t|] eqn:E; [|discriminate].
  intros [= <-]. apply (a2b_bytes_ok (s ++ [61; 61; 61]) 0 0 0 t); [unfold lf_ok; lia | exact E].
Qed.

(* leniency: a character of neither alphabet that is not '=' is skipped wherever it stands *)
Lemma a2b_skip l1 : forall c l2 qp lf pads, dec_char c = None -> c <> 61 ->
  a2b (l1 ++ c :: l2) qp lf pads = a2b (l1 ++ l2) qp lf pads.
Proof.
  induction l1 as [|x l1 IH]; intros c l2 qp lf pads Hd Hc.
  - cbn [app a2b]. replace (c =? 61) with false by lia. rewrite Hd. reflexivity.
  - cbn [app a2b].
    destruct (x =? 61).
    + destruct ((2 <=? qp) && (4 <=? qp + (pads + 1))); [reflexivity|]. apply IH; assumption.
    + destruct (dec_char x) as [v|].
      * destruct (qp =? 0); [apply IH; assumption|].
        destruct (qp =? 1); [rewrite IH by assumption; reflexivity|].
        destruct (qp =? 2); rewrite IH by assumption; reflexivity.
      * apply IH; assumption.
Qed.

Theorem b64_dec_skips_junk l1 c l2 : 0 <= c < 128 -> dec_char c = None -> c <> 61 ->
  b64url_dec (l1 ++ c :: l2) = b64url_dec (l1 ++ l2).
Proof.
  intros Hr Hd Hc. unfold b64url_dec.
  assert (Ha : is_ascii (l1 ++ c :: l2) = is_ascii (l1 ++ l2)).
  { unfold is_ascii. rewrite !forallb_app'. cbn [forallb].
    replace ((0 <=? c) && (c <? 128)) with true by lia. reflexivity. }
  rewrite Ha. destruct (is_ascii (l1 ++ l2)); [|reflexivity].
  rewrite <- !app_assoc. rewrite <- app_comm_cons. rewrite a2b_skip by assumption. reflexivity.
Qed.

(* both alphabets decode alike: '+' as '-' and '/' as '_' *)
Definition to_std (c : Z) : Z := if c =? 45 then 43 else if c =? 95 then 47 else c.
Lemma dec_char_to_std c : dec_char (to_std c) = dec_char c.
Proof.
  unfold to_std. destruct (c =? 45) eqn:E1; [replace c with 45 by lia; reflexivity|].
  destruct (c =? 95) eqn:E2; [replace c with 95 by lia; reflexivity|]. reflexivity.
Qed.
Lemma to_std_pad c : (to_std c =? 61) = (c =? 61).
Proof. unfold to_std. destruct (c =? 45) eqn:E1; [lia|]. destruct (c =? 95) eqn:E2; lia. Qed.

Lemma a2b_to_std s : forall qp lf pads, a2b (map to_std s) qp lf pads = a2b s qp lf pads.
Proof.
  induction s as [|c r IH]; intros qp lf pads; cbn [map a2b]; [reflexivity|].
  rewrite to_std_pad, dec_char_to_std.
  destruct (c =? 61); [rewrite IH; reflexivity|].
  destruct (dec_char c) as [v|]; [|apply IH].
  rewrite !IH. reflexivity.
Qed.

Theorem b64_dec_either_alphabet s : b64url_dec (map to_std s) = b64url_dec s.
Proof.
  unfold b64url_dec.
  assert (Ha : is_ascii (map to_std s) = is_ascii s).
  { unfold is_ascii. induction s as [|c r IH]; cbn [map forallb]; [reflexivity|]. rewrite IH.
    f_equal. unfold to_std. destruct (c =? 45) eqn:E1; [lia|]. destruct (c =? 95) eqn:E2; lia. }
  rewrite Ha. destruct (is_ascii s); [|reflexivity].
  replace (map to_std s ++ [61; 61; 61]) with (map to_std (s ++ [61; 61; 61]))
    by (rewrite map_app; reflexivity).
  rewrite a2b_to_std. reflexivity.
Qed.
