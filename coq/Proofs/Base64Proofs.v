From Coq Require Import ZArith List Bool Lia ZifyBool.
From PW Require Import Model.Base Model.Base64.
Import ListNotations.
Open Scope Z_scope.
Ltac Zify.zify_post_hook ::= Z.to_euclidean_division_equations.

Lemma list_ind3 {A} (P : list A -> Prop) :
  P [] -> (forall a, P [a]) -> (forall a b, P [a; b]) ->
  (forall a b c r, P r -> P (a :: b :: c :: r)) -> forall l, P l.
Proof.
  intros H0 H1 H2 H3.
  assert (H : forall l, P l /\ (forall a, P (a :: l)) /\ (forall a b, P (a :: b :: l))).
  { induction l as [|x l [IH0 [IH1 IH2]]].
    - repeat split; auto.
    - repeat split; auto. }
  intro l. apply (H l).
Qed.

Lemma dec_enc_char i : 0 <= i < 64 -> dec_char (enc_char i) = Some i.
Proof.
  intros Hi. unfold enc_char.
  destruct (i <? 26) eqn:E1; [unfold dec_char|].
  { replace ((65 <=? i + 65) && (i + 65 <=? 90)) with true by lia. f_equal. lia. }
  destruct (i <? 52) eqn:E2; [unfold dec_char|].
  { replace ((65 <=? i + 71) && (i + 71 <=? 90)) with false by lia.
    replace ((97 <=? i + 71) && (i + 71 <=? 122)) with true by lia. f_equal. lia. }
  destruct (i <? 62) eqn:E3; [unfold dec_char|].
  { replace ((65 <=? i - 4) && (i - 4 <=? 90)) with false by lia.
    replace ((97 <=? i - 4) && (i - 4 <=? 122)) with false by lia.
    replace ((48 <=? i - 4) && (i - 4 <=? 57)) with true by lia. f_equal. lia. }
  destruct (i =? 62) eqn:E4.
  { assert (i = 62) by lia. subst. reflexivity. }
  assert (i = 63) by lia. subst. reflexivity.
Qed.

Lemma enc_char_not_pad i : 0 <= i < 64 -> (enc_char i =? 61) = false.
Proof.
  intros Hi. unfold enc_char.
  destruct (i <? 26) eqn:E1; [lia|].
  destruct (i <? 52) eqn:E2; [lia|].
  destruct (i <? 62) eqn:E3; [lia|].
  destruct (i =? 62) eqn:E4; lia.
Qed.

Definition urlsafe_char (c : Z) : bool :=
  ((65 <=? c) && (c <=? 90)) || ((97 <=? c) && (c <=? 122)) || ((48 <=? c) && (c <=? 57))
  || (c =? 45) || (c =? 95).

Lemma enc_char_urlsafe i : 0 <= i < 64 -> urlsafe_char (enc_char i) = true.
Proof.
  intros Hi. unfold enc_char, urlsafe_char.
  destruct (i <? 26) eqn:E1; [lia|].
  destruct (i <? 52) eqn:E2; [lia|].
  destruct (i <? 62) eqn:E3; [lia|].
  destruct (i =? 62) eqn:E4; lia.
Qed.

(* one decoder step on an encoded character *)
Lemma a2b_step i r qp lf pads : 0 <= i < 64 ->
  a2b (enc_char i :: r) qp lf pads =
    if qp =? 0 then a2b r 1 i 0
    else if qp =? 1 then option_map (cons (lf * 4 + i / 16)) (a2b r 2 (i mod 16) 0)
    else if qp =? 2 then option_map (cons (lf * 16 + i / 4)) (a2b r 3 (i mod 4) 0)
    else option_map (cons (lf * 64 + i)) (a2b r 0 0 0).
Proof.
  intros Hi. cbn [a2b]. rewrite (enc_char_not_pad i Hi), (dec_enc_char i Hi). reflexivity.
Qed.

Lemma byte_ok_range b : byte_ok b = true -> 0 <= b < 256.
Proof. unfold byte_ok. lia. Qed.

Lemma a2b_group a b c r :
  0 <= a < 256 -> 0 <= b < 256 -> 0 <= c < 256 ->
  a2b (enc_char (a / 4) :: enc_char ((a mod 4) * 16 + b / 16)
       :: enc_char ((b mod 16) * 4 + c / 64) :: enc_char (c mod 64) :: r) 0 0 0
  = option_map (fun t => a :: b :: c :: t) (a2b r 0 0 0).
Proof.
  intros Ha Hb Hc.
  assert (R1 : 0 <= a / 4 < 64) by lia.
  assert (R2 : 0 <= (a mod 4) * 16 + b / 16 < 64) by lia.
  assert (R3 : 0 <= (b mod 16) * 4 + c / 64 < 64) by lia.
  assert (R4 : 0 <= c mod 64 < 64) by lia.
  rewrite (a2b_step _ _ 0 0 0 R1). cbn [Z.eqb].
  rewrite (a2b_step _ _ 1 _ 0 R2). cbn [Z.eqb Pos.eqb].
  rewrite (a2b_step _ _ 2 _ 0 R3). cbn [Z.eqb Pos.eqb].
  rewrite (a2b_step _ _ 3 _ 0 R4). cbn [Z.eqb Pos.eqb].
  destruct (a2b r 0 0 0) as [t|]; cbn [option_map]; [|reflexivity].
  f_equal. f_equal; [lia|]. f_equal; [lia|]. f_equal. lia.
Qed.

(* decoding a run of '=' from a quad boundary *)
Lemma a2b_pads_q0 k : a2b (repeat 61 k) 0 0 0 = Some [].
Proof. induction k as [|k IH]; cbn [repeat a2b]; [reflexivity|]. cbn. exact IH. Qed.

Lemma a2b_tail1 a k : 0 <= a < 256 ->
  a2b ([enc_char (a / 4); enc_char ((a mod 4) * 16)] ++ repeat 61 (S (S k))) 0 0 0 = Some [a].
Proof.
  intros Ha.
  assert (R1 : 0 <= a / 4 < 64) by lia.
  assert (R2 : 0 <= (a mod 4) * 16 < 64) by lia.
  cbn [app].
  rewrite (a2b_step _ _ 0 0 0 R1). cbn [Z.eqb].
  rewrite (a2b_step _ _ 1 _ 0 R2). cbn [Z.eqb Pos.eqb].
  cbn [repeat a2b]. cbn. f_equal. f_equal. lia.
Qed.

Lemma a2b_tail2 a b k : 0 <= a < 256 -> 0 <= b < 256 ->
  a2b ([enc_char (a / 4); enc_char ((a mod 4) * 16 + b / 16); enc_char ((b mod 16) * 4)]
       ++ repeat 61 (S k)) 0 0 0 = Some [a; b].
Proof.
  intros Ha Hb.
  assert (R1 : 0 <= a / 4 < 64) by lia.
  assert (R2 : 0 <= (a mod 4) * 16 + b / 16 < 64) by lia.
  assert (R3 : 0 <= (b mod 16) * 4 < 64) by lia.
  cbn [app].
  rewrite (a2b_step _ _ 0 0 0 R1). cbn [Z.eqb].
  rewrite (a2b_step _ _ 1 _ 0 R2). cbn [Z.eqb Pos.eqb].
  rewrite (a2b_step _ _ 2 _ 0 R3). cbn [Z.eqb Pos.eqb].
  cbn [repeat a2b]. cbn. f_equal. f_equal; [lia|]. f_equal. lia.
Qed.

(* the round trip on the raw state machine: any amount (>= 2) of trailing padding *)
Lemma a2b_enc b : bytes_ok b = true ->
  forall k, a2b (b64url_enc b ++ repeat 61 (S (S k))) 0 0 0 = Some b.
Proof.
  unfold b64url_enc.
  induction b as [|x|x y|x y z r IH] using list_ind3; intros Hok k.
  - cbn [enc_with app]. apply a2b_pads_q0.
  - cbn in Hok. rewrite andb_true_r in Hok. apply byte_ok_range in Hok.
    cbn [enc_with]. apply a2b_tail1. exact Hok.
  - cbn in Hok. rewrite andb_true_r in Hok. apply andb_true_iff in Hok as [Hx Hy].
    apply byte_ok_range in Hx, Hy.
    cbn [enc_with]. apply (a2b_tail2 x y (S k)); assumption.
  - cbn [bytes_ok forallb] in Hok.
    apply andb_true_iff in Hok as [Hx Hok]. apply andb_true_iff in Hok as [Hy Hok].
    apply andb_true_iff in Hok as [Hz Hok].
    apply byte_ok_range in Hx, Hy, Hz.
    cbn [enc_with app]. rewrite a2b_group by assumption.
    rewrite (IH Hok k). reflexivity.
Qed.

Lemma enc_urlsafe b : bytes_ok b = true -> forallb urlsafe_char (b64url_enc b) = true.
Proof.
  unfold b64url_enc.
  induction b as [|x|x y|x y z r IH] using list_ind3; intros Hok.
  - reflexivity.
  - cbn in Hok. rewrite andb_true_r in Hok. apply byte_ok_range in Hok.
    cbn [enc_with forallb]. rewrite !enc_char_urlsafe by lia. reflexivity.
  - cbn in Hok. rewrite andb_true_r in Hok. apply andb_true_iff in Hok as [Hx Hy].
    apply byte_ok_range in Hx, Hy.
    cbn [enc_with forallb]. rewrite !enc_char_urlsafe by lia. reflexivity.
  - cbn [bytes_ok forallb] in Hok.
    apply andb_true_iff in Hok as [Hx Hok]. apply andb_true_iff in Hok as [Hy Hok].
    apply andb_true_iff in Hok as [Hz Hok].
    apply byte_ok_range in Hx, Hy, Hz.
    cbn [enc_with forallb]. rewrite !enc_char_urlsafe by lia. cbn [andb]. apply IH. exact Hok.
Qed.

Lemma urlsafe_ascii_nopad c : urlsafe_char c = true -> (0 <=? c) && (c <? 128) = true /\ c <> 61.
Proof. unfold urlsafe_char. lia. Qed.

Lemma forallb_app' {A} (f : A -> bool) l1 l2 : forallb f (l1 ++ l2) = forallb f l1 && forallb f l2.
Proof. induction l1 as [|x l1 IH]; cbn; [reflexivity|]. rewrite IH, andb_assoc. reflexivity. Qed.

Lemma repeat_app {A} (x : A) n m : repeat x n ++ repeat x m = repeat x (n + m).
Proof. induction n as [|n IH]; cbn; [reflexivity|]. rewrite IH. reflexivity. Qed.

Lemma is_ascii_enc_pad b k : bytes_ok b = true -> is_ascii (b64url_enc b ++ repeat 61 k) = true.
Proof.
  intros Hok. unfold is_ascii. rewrite forallb_app'.
  apply andb_true_iff. split.
  - pose proof (enc_urlsafe b Hok) as H. rewrite forallb_forall in H |- *.
    intros c Hc. apply (urlsafe_ascii_nopad c (H c Hc)).
  - induction k as [|k IH]; cbn; [reflexivity|exact IH].
Qed.

(* ------------------------------------------------------------------ *)
(* C14 statements                                                     *)

Theorem b64_roundtrip b k : bytes_ok b = true ->
  b64url_dec (b64url_enc b ++ repeat 61 k) = Ok b.
Proof.
  intros Hok. unfold b64url_dec. rewrite (is_ascii_enc_pad b k Hok).
  rewrite <- app_assoc.
  change [61; 61; 61] with (repeat 61 3).
  rewrite repeat_app. replace (k + 3)%nat with (S (S (S k))) by lia.
  rewrite (a2b_enc b Hok (S k)). reflexivity.
Qed.

Theorem b64_charset b : bytes_ok b = true ->
  Forall (fun c => urlsafe_char c = true /\ c <> 61) (b64url_enc b).
Proof.
  intros Hok. pose proof (enc_urlsafe b Hok) as H. rewrite forallb_forall in H.
  apply Forall_forall. intros c Hc. split; [apply H; exact Hc|].
  apply (urlsafe_ascii_nopad c (H c Hc)).
Qed.

Theorem b64_injective b1 b2 : bytes_ok b1 = true -> bytes_ok b2 = true ->
  b64url_enc b1 = b64url_enc b2 -> b1 = b2.
Proof.
  intros H1 H2 E.
  pose proof (b64_roundtrip b1 0 H1) as R1. pose proof (b64_roundtrip b2 0 H2) as R2.
  rewrite E in R1. rewrite R1 in R2. injection R2. auto.
Qed.

(* decoder never invents non-bytes: every output byte is in range when the state is *)
Lemma dec_char_range c v : dec_char c = Some v -> 0 <= v < 64.
Proof.
  unfold dec_char.
  destruct ((65 <=? c) && (c <=? 90)) eqn:E1; [intros [= <-]; lia|].
  destruct ((97 <=? c) && (c <=? 122)) eqn:E2; [intros [= <-]; lia|].
  destruct ((48 <=? c) && (c <=? 57)) eqn:E3; [intros [= <-]; lia|].
  destruct ((c =? 43) || (c =? 45)) eqn:E4; [intros [= <-]; lia|].
  destruct ((c =? 47) || (c =? 95)) eqn:E5; [intros [= <-]; lia|].
  discriminate.
Qed.
