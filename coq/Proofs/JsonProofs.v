From Coq Require Import ZArith List Bool Lia String.
From PW Require Import Model.Base Model.Json Model.Base64 Model.Oracles Model.CredJson Generated.Constants
  Spec.JsonSpec Proofs.Tactics Proofs.Base64Proofs.
Import ListNotations.
Open Scope Z_scope.

Lemma b64url_dec_err s e : b64url_dec s = Err e -> e = Py ValueError.
Proof.
  unfold b64url_dec. destruct (is_ascii s); [|intros [= <-]; reflexivity].
  destruct (a2b _ _ _ _); [discriminate|intros [= <-]; reflexivity].
Qed.

(* outcome classes the property allows for the credential parsers *)
Definition cred_outcome_ok {A} (c : lib_exn) (r : res A) : Prop :=
  match r with
  | Ok _ => True
  | Err (Lib InvalidJSONStructure) => True
  | Err (Lib c') => c' = c
  | _ => False
  end.

(* json.loads on str input yields a value or raises a ValueError (JSONDecodeError or another one); what is excluded is only "anything else",
   i.e. RecursionError on nesting beyond the interpreter's limit - C13 quantifies over nesting far below it *)
Definition loads_ok (O : oracles) (inp : pystr + json) : Prop :=
  match inp with
  | inl s => match o_json_loads O true s with JOtherError => False | _ => True end
  | inr _ => True
  end.

Ltac step :=
  match goal with
  | |- context [b64url_dec ?x] =>
      let E := fresh "E" in destruct (b64url_dec x) as [?|?] eqn:E; [|apply b64url_dec_err in E; subst]
  | |- context [match ?x with _ => _ end] =>
      lazymatch x with
      | context [match _ with _ => _ end] => fail
      | _ => destruct x eqn:?
      end
  end; cbn [bind guard wrap cred_outcome_ok] in *.

Theorem parse_auth_cred_total O inp : loads_ok O inp ->
  cred_outcome_ok InvalidAuthenticationResponse (parse_auth_cred_json O inp).
Proof.
  intros HL. unfold parse_auth_cred_json, load_obj, get_str, get_obj, parse_attachment, loads_ok in *.
  unfold guard, bind, wrap. 
  destruct inp as [s|j].
  - destruct (o_json_loads O true s) eqn:EL; try contradiction; cbn [cred_outcome_ok]; auto.
    repeat step; cbn [cred_outcome_ok]; auto.
  - repeat step; cbn [cred_outcome_ok]; auto.
Qed.

Theorem parse_reg_cred_total O inp : loads_ok O inp ->
  cred_outcome_ok InvalidRegistrationResponse (parse_reg_cred_json O inp).
Proof.
  intros HL. unfold parse_reg_cred_json, load_obj, get_str, get_obj, parse_attachment, loads_ok in *.
  unfold guard, bind, wrap.
  destruct inp as [s|j].
  - destruct (o_json_loads O true s) eqn:EL; try contradiction; cbn [cred_outcome_ok]; auto.
    repeat step; cbn [cred_outcome_ok]; auto.
  - repeat step; cbn [cred_outcome_ok]; auto.
Qed.

(* text and dict forms give the same record *)
Theorem parse_auth_text_dict O s j : o_json_loads O true s = JOk j ->
  parse_auth_cred_json O (inl s) = parse_auth_cred_json O (inr j).
Proof. intros H. unfold parse_auth_cred_json, load_obj. rewrite H. reflexivity. Qed.
Theorem parse_reg_text_dict O s j : o_json_loads O true s = JOk j ->
  parse_reg_cred_json O (inl s) = parse_reg_cred_json O (inr j).
Proof. intros H. unfold parse_reg_cred_json, load_obj. rewrite H. reflexivity. Qed.

(* ---------- faithfulness on well-formed credentials over arbitrary byte contents ---------- *)
Lemma enum_has_str e s : enum_has e (JStr s) = existsb (fun p => str_eqb s (s2l (snd p))) e.
Proof. unfold enum_has. reflexivity. Qed.

Definition att_ok (att : option pystr) : Prop :=
  match att with Some a => enum_has attachment_enum (JStr a) = true | None => True end.

Ltac eval_s2l :=
  repeat match goal with
  | |- context [s2l ?s] => let v := eval vm_compute in (s2l s) in change (s2l s) with v
  end.
Ltac red_get := cbn [jget jget_none str_eqb list_eqb Z.eqb Pos.eqb andb app bind guard fst snd].

Theorem parse_auth_faithful O id raw cdj ad sg uh att k1 k2 k3 k4 k5 extra rextra :
  bytes_ok raw = true -> bytes_ok cdj = true -> bytes_ok ad = true -> bytes_ok sg = true ->
  match uh with Some u => bytes_ok u = true | None => True end -> att_ok att ->
  parse_auth_cred_json O (inr (auth_cred_json id raw cdj ad sg uh att k1 k2 k3 k4 k5 extra rextra)) =
  Ok {| acr_id := id; acr_raw_id := raw; acr_type := public_key_s; acr_client_data := cdj;
        acr_auth_data := ad; acr_signature := sg; acr_user_handle := uh; acr_attachment := att |}.
Proof.
  intros H1 H2 H3 H4 H5 H6.
  unfold parse_auth_cred_json, load_obj, auth_cred_json, parse_attachment, get_str, get_obj, public_key_s.
  assert (Hty : enum_has cred_type_enum (JStr (s2l "public-key")) = true) by (vm_compute; reflexivity).
  eval_s2l. red_get.
  change (enum_has cred_type_enum (JStr [112; 117; 98; 108; 105; 99; 45; 107; 101; 121])) with
    (enum_has cred_type_enum (JStr (s2l "public-key"))). rewrite Hty. red_get.
  rewrite !b64_roundtrip by assumption.
  destruct uh as [u|]; destruct att as [a|]; cbn [att_ok] in H6; red_get;
    try rewrite H6; try rewrite (b64_roundtrip u k5 H5); cbn [wrap bind]; reflexivity.
Qed.

Theorem parse_reg_faithful O id raw cdj ao tr att k1 k2 k3 extra rextra :
  bytes_ok raw = true -> bytes_ok cdj = true -> bytes_ok ao = true -> att_ok att ->
  parse_reg_cred_json O (inr (reg_cred_json id raw cdj ao tr att k1 k2 k3 extra rextra)) =
  Ok {| rcr_id := id; rcr_raw_id := raw; rcr_type := public_key_s; rcr_client_data := cdj;
        rcr_att_obj := ao; rcr_attachment := att;
        rcr_transports := option_map (fun l => flat_map (fun v => match v with
                              | JStr s => if enum_has transport_enum v then [s] else []
                              | _ => [] end) l) tr |}.
Proof.
  intros H1 H2 H3 H6.
  unfold parse_reg_cred_json, load_obj, reg_cred_json, parse_attachment, get_str, get_obj, public_key_s.
  assert (Hty : enum_has cred_type_enum (JStr (s2l "public-key")) = true) by (vm_compute; reflexivity).
  eval_s2l. red_get.
  change (enum_has cred_type_enum (JStr [112; 117; 98; 108; 105; 99; 45; 107; 101; 121])) with
    (enum_has cred_type_enum (JStr (s2l "public-key"))). rewrite Hty. red_get.
  rewrite !b64_roundtrip by assumption.
  destruct tr as [l|]; destruct att as [a|]; cbn [att_ok] in H6; red_get;
    try rewrite H6; cbn [wrap bind option_map]; reflexivity.
Qed.

(* the enumerations the code recognises are exactly those the WebAuthn spec names (regenerated constants) *)
Lemma transports_are_spec : map snd transport_enum = known_transports.
Proof. vm_compute. reflexivity. Qed.
Lemma attachments_are_spec : map snd attachment_enum = known_attachments.
Proof. vm_compute. reflexivity. Qed.
Lemma cred_types_are_spec : map snd cred_type_enum = ["public-key"%string].
Proof. vm_compute. reflexivity. Qed.

(* ---------- client data JSON: exactly type / decoded challenge / origin; unknown members ignored ---------- *)
From PW Require Import Model.ClientData.
Theorem parse_client_data_exact O raw m t c ch o :
  o_json_loads O false raw = JOk (JObj m) ->
  jget m k_type = Some t -> jget m k_challenge = Some (JStr c) -> b64url_dec c = Ok ch -> jget m k_origin = Some o ->
  match jget m (s2l "tokenBinding") with Some (JObj _) => False | _ => True end ->
  parse_client_data O raw = Ok {| cd_type := t; cd_challenge := ch; cd_origin := o; cd_token_binding := None |}.
Proof.
  intros HL Ht Hc Hd Ho Htb. unfold parse_client_data. rewrite HL.
  unfold jhas, jget_none. rewrite Ht, Hc, Ho. cbn [negb py_format]. rewrite Hd. cbn [bind].
  destruct (jget m (s2l "tokenBinding")) as [[| | | | | |tbo]|]; try contradiction; reflexivity.
Qed.

Theorem parse_client_data_token_binding O raw m t c ch o tb st :
  o_json_loads O false raw = JOk (JObj m) ->
  jget m k_type = Some t -> jget m k_challenge = Some (JStr c) -> b64url_dec c = Ok ch -> jget m k_origin = Some o ->
  jget m (s2l "tokenBinding") = Some (JObj tb) -> jget tb (s2l "status") = Some st ->
  parse_client_data O raw = Ok {| cd_type := t; cd_challenge := ch; cd_origin := o; cd_token_binding := Some st |}.
Proof.
  intros HL Ht Hc Hd Ho Htb Hst. unfold parse_client_data. rewrite HL.
  unfold jhas, jget_none. rewrite Ht, Hc, Ho. cbn [negb py_format]. rewrite Hd. cbn [bind]. rewrite Htb, Hst. reflexivity.
Qed.

Theorem parse_client_data_missing_member O raw m :
  o_json_loads O false raw = JOk (JObj m) ->
  jget m k_type = None \/ jget m k_challenge = None \/ jget m k_origin = None ->
  parse_client_data O raw = Err (Lib InvalidJSONStructure).
Proof.
  intros HL H. unfold parse_client_data. rewrite HL. unfold jhas.
  destruct (jget m k_type); [|reflexivity]. destruct (jget m k_challenge); [|reflexivity]. destruct (jget m k_origin); [|reflexivity].
  destruct H as [H|[H|H]]; discriminate.
Qed.
