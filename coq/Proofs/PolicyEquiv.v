(* Policies that denote the same expectations (the same SET of allowed algorithms and of expected origins, in any order, with any repeats; the same switches) give the
   same outcome - result or exception - on every credential.  Strengthens the monotonicity theorems (which speak about accepted responses only). *)
From Coq Require Import ZArith List Bool String Lia.
From PW Require Import Model.Base Model.SigTypes Model.Json Model.Base64 Model.Utf8 Model.Cbor Model.AuthData
  Model.Oracles Model.ClientData Model.CredJson Model.Cose Model.SigAlg Model.Tpm Model.Formats Model.VerifyAuth Model.VerifyReg
  Generated.Constants Spec.SigSpec Spec.AuthSpec Spec.RegSpec Proofs.Tactics.
Import ListNotations.
Open Scope Z_scope.

Lemma existsb_incl (A : Type) (f : A -> bool) l1 l2 : incl l1 l2 -> existsb f l1 = true -> existsb f l2 = true.
Proof.
  intros I H. apply existsb_exists in H as [x [Hx Hf]]. apply existsb_exists. exists x. split; [apply I; exact Hx|exact Hf].
Qed.

Lemma existsb_same_members (A : Type) (f : A -> bool) l1 l2 : incl l1 l2 -> incl l2 l1 -> existsb f l1 = existsb f l2.
Proof.
  intros I1 I2. destruct (existsb f l1) eqn:E1.
  - symmetry. eapply existsb_incl; eauto.
  - destruct (existsb f l2) eqn:E2; [|reflexivity]. rewrite (existsb_incl _ f l2 l1 I2 E2) in E1. discriminate.
Qed.

Lemma origin_ok_same e e' : origin_looser e e' -> origin_looser e' e -> forall o, origin_ok e o = origin_ok e' o.
Proof.
  intros L1 L2 o. destruct (origin_ok e o) eqn:E1.
  - symmetry. apply L1. exact E1.
  - destruct (origin_ok e' o) eqn:E2; [|reflexivity]. rewrite (L2 o E2) in E1. discriminate.
Qed.

Lemma bool_iff_eq (a b : bool) : (a = true -> b = true) -> (b = true -> a = true) -> a = b.
Proof. destruct a, b; intros H1 H2; try reflexivity; [specialize (H1 eq_refl)|specialize (H2 eq_refl)]; discriminate. Qed.


(* walk both sides of `bind x k = bind x k'` in step: same head, destruct it; different head (the policy-dependent test), rewrite it *)
Ltac same_head :=
  match goal with
  | |- ?a = ?a => reflexivity
  | |- bind ?x _ = bind ?x _ => let E := fresh "E" in destruct x eqn:E; cbn [bind]; [|reflexivity]
  | |- (match ?x with _ => _ end) = (match ?x with _ => _ end) => let E := fresh "E" in destruct x eqn:E
  | |- (if ?x then _ else _) = (if ?x then _ else _) => let E := fresh "E" in destruct x eqn:E
  end.

Theorem reg_policy_equiv O P P' c : reg_looser P P' -> reg_looser P' P -> verify_reg O P c = verify_reg O P' c.
Proof.
  intros [L1 L2 L3 L4 L5 L6 L7 L8 L9 L10 L11] [M1 M2 M3 M4 M5 M6 M7 M8 M9 M10 M11].
  destruct P as [ch rp org up uv algs roots b1 b2 b3 now], P' as [ch' rp' org' up' uv' algs' roots' b1' b2' b3' now'].
  cbn [rp_challenge rp_rp_id rp_origin rp_require_up rp_require_uv rp_algs rp_roots rp_builtin_apple rp_builtin_android_key rp_builtin_safetynet rp_now] in *.
  subst ch' rp' roots' b1' b2' b3' now'.
  assert (up = up') as -> by (apply bool_iff_eq; assumption).
  assert (uv = uv') as -> by (apply bool_iff_eq; assumption).
  pose proof (origin_ok_same org org' L8 M8) as HO.
  pose proof (fun f => existsb_same_members Z f algs algs' L11 M11) as HA.
  unfold verify_reg. same_head. unfold verify_reg_rec.
  cbn [rp_challenge rp_rp_id rp_origin rp_require_up rp_require_uv rp_algs rp_roots rp_builtin_apple rp_builtin_android_key rp_builtin_safetynet rp_now].
  do 5 same_head. rewrite HO. repeat same_head.
  match goal with |- context [alg_int ?d] => destruct (alg_int d) eqn:EA end; [rewrite HA|reflexivity].
  repeat same_head.
  unfold verify_statement.
  cbn [rp_challenge rp_rp_id rp_origin rp_require_up rp_require_uv rp_algs rp_roots rp_builtin_apple rp_builtin_android_key rp_builtin_safetynet rp_now].
  reflexivity.
Qed.
Print Assumptions reg_policy_equiv.

Theorem auth_policy_equiv O P P' c : auth_looser P P' -> auth_looser P' P -> verify_auth O P c = verify_auth O P' c.
Proof.
  intros [L1 L2 L3 L4 L5 L6] [M1 M2 M3 M4 M5 M6].
  destruct P as [ch rp org key cnt uv], P' as [ch' rp' org' key' cnt' uv'].
  cbn [ap_challenge ap_rp_id ap_origin ap_pubkey ap_count ap_require_uv] in *.
  subst ch' rp' key' cnt'.
  assert (uv = uv') as -> by (apply bool_iff_eq; assumption).
  pose proof (origin_ok_same org org' L5 M5) as HO.
  unfold verify_auth. same_head. unfold verify_auth_rec.
  cbn [ap_challenge ap_rp_id ap_origin ap_pubkey ap_count ap_require_uv].
  do 5 same_head. rewrite HO. reflexivity.
Qed.
Print Assumptions auth_policy_equiv.

(* corollaries in the vocabulary of the property: order and repetition of list entries do not matter *)
Corollary reg_algs_order_and_repeats O P c l :
  (forall a, In a l <-> In a (rp_algs P)) ->
  verify_reg O P c =
  verify_reg O {| rp_challenge := rp_challenge P; rp_rp_id := rp_rp_id P; rp_origin := rp_origin P; rp_require_up := rp_require_up P; rp_require_uv := rp_require_uv P;
                  rp_algs := l; rp_roots := rp_roots P; rp_builtin_apple := rp_builtin_apple P; rp_builtin_android_key := rp_builtin_android_key P;
                  rp_builtin_safetynet := rp_builtin_safetynet P; rp_now := rp_now P |} c.
Proof.
  intros H. apply reg_policy_equiv; constructor; cbn; try reflexivity; try (intros o Ho; exact Ho); try (intros Hx; exact Hx);
    intros a Ha; apply H; exact Ha.
Qed.
Print Assumptions reg_algs_order_and_repeats.

Example algs_example : forall O P c, rp_algs P = [-7; -257] ->
  verify_reg O P c = verify_reg O {| rp_challenge := rp_challenge P; rp_rp_id := rp_rp_id P; rp_origin := rp_origin P; rp_require_up := rp_require_up P; rp_require_uv := rp_require_uv P;
                  rp_algs := [-257; -7; -257; -7]; rp_roots := rp_roots P; rp_builtin_apple := rp_builtin_apple P; rp_builtin_android_key := rp_builtin_android_key P;
                  rp_builtin_safetynet := rp_builtin_safetynet P; rp_now := rp_now P |} c.
Proof.
  intros O P c H. apply reg_algs_order_and_repeats. rewrite H. intros a. cbn [In]. tauto.
Qed.

Lemma origins_same_members l l' : (forall s, In s l <-> In s l') -> origin_looser (OMany l) (OMany l') /\ origin_looser (OMany l') (OMany l).
Proof.
  intros H. split; intros o Ho; cbn [origin_ok] in *; (eapply existsb_incl; [|exact Ho]); intros s Hs; apply H; exact Hs.
Qed.

Corollary auth_origins_order_and_repeats O P c l l' : ap_origin P = OMany l -> (forall s, In s l <-> In s l') ->
  verify_auth O P c =
  verify_auth O {| ap_challenge := ap_challenge P; ap_rp_id := ap_rp_id P; ap_origin := OMany l'; ap_pubkey := ap_pubkey P; ap_count := ap_count P; ap_require_uv := ap_require_uv P |} c.
Proof.
  intros E H. destruct (origins_same_members l l' H) as [A B].
  apply auth_policy_equiv; constructor; cbn; try reflexivity; try (intros Hx; exact Hx); rewrite E; assumption.
Qed.
Print Assumptions auth_origins_order_and_repeats.
