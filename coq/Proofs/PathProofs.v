(* An EXECUTABLE certification-path search and its equivalence with the declarative ChainAcceptable of
   Spec/ChainSpec.v.  The fuel bound (number of presented intermediates + 2) is shown sufficient by cutting
   repeated certificates out of a path (pigeonhole). *)
From Coq Require Import ZArith List Bool Lia.
From PW Require Import Model.Base Spec.ChainSpec Proofs.Tactics.
Import ListNotations.
Open Scope Z_scope.

Lemma xcert_eqb_eq a b : xcert_eqb a b = true <-> a = b.
Proof.
  unfold xcert_eqb. split.
  - intros H. repeat (apply andb_true_iff in H as [H ?]).
    destruct a, b. cbn in *.
    repeat match goal with
    | E : list_eqb Z.eqb _ _ = true |- _ => apply list_eqb_Z_eq in E
    | E : (_ =? _) = true |- _ => apply Z.eqb_eq in E
    | E : Bool.eqb _ _ = true |- _ => apply Bool.eqb_prop in E
    end. subst. reflexivity.
  - intros ->. rewrite !list_eqb_refl, !Z.eqb_refl, Bool.eqb_reflx. reflexivity.
Qed.

Lemma xcert_eq_dec (a b : xcert) : {a = b} + {a <> b}.
Proof. destruct (xcert_eqb a b) eqn:E; [left; apply xcert_eqb_eq, E|right; intros H; apply xcert_eqb_eq in H; congruence]. Qed.

Lemma in_validity_b_spec now c : in_validity_b now c = true <-> in_validity now c.
Proof. unfold in_validity_b, in_validity. rewrite andb_true_iff, Z.leb_le, Z.ltb_lt. tauto. Qed.
Lemma issued_by_b_spec c p : issued_by_b c p = true <-> issued_by c p.
Proof.
  unfold issued_by_b, issued_by. rewrite !andb_true_iff, list_eqb_Z_eq, Z.eqb_eq. tauto.
Qed.

Lemma vp_cons_inv now anchors c p rest : ValidPath now anchors (c :: p :: rest) ->
  in_validity now c /\ issued_by c p /\ ValidPath now anchors (p :: rest).
Proof. intros H. inversion H; subst. auto. Qed.
Lemma vp_single_inv now anchors c : ValidPath now anchors [c] -> In c anchors /\ in_validity now c.
Proof. intros H. inversion H; subst. auto. Qed.

(* ---------- soundness ---------- *)
Lemma search_sound now inter anchors : forall fuel c, search fuel now inter anchors c = true ->
  exists path, ValidPath now anchors (c :: path) /\ (forall x, In x (removelast path) -> In x inter).
Proof.
  induction fuel as [|f IH]; intros c H; [discriminate|].
  cbn [search] in H. apply andb_true_iff in H as [Hv H]. apply in_validity_b_spec in Hv.
  apply orb_true_iff in H as [H|H]; [apply orb_true_iff in H as [H|H]|].
  - apply existsb_exists in H as (a & Ha & E). apply xcert_eqb_eq in E. subst a.
    exists []. split; [constructor; assumption|intros x []].
  - apply existsb_exists in H as (a & Ha & E). apply andb_true_iff in E as [Ei Eva].
    apply issued_by_b_spec in Ei. apply in_validity_b_spec in Eva.
    exists [a]. split; [|intros x []]. apply vp_step; [exact Hv|exact Ei|]. constructor; assumption.
  - apply existsb_exists in H as (p & Hp & E). apply andb_true_iff in E as [Ei Es].
    apply issued_by_b_spec in Ei. destruct (IH p Es) as (path & Hpath & Hincl).
    exists (p :: path). split; [apply vp_step; assumption|].
    intros x Hx. destruct path as [|q path']; [destruct Hx|].
    change (removelast (p :: q :: path')) with (p :: removelast (q :: path')) in Hx.
    destruct Hx as [<-|Hx]; [exact Hp|apply Hincl, Hx].
Qed.

(* ---------- completeness with enough fuel ---------- *)
Lemma search_mono now inter anchors : forall fuel c, search fuel now inter anchors c = true -> search (S fuel) now inter anchors c = true.
Proof.
  induction fuel as [|f IH]; intros c H; [discriminate|].
  cbn [search] in H |- *. apply andb_true_iff in H as [Hv H]. rewrite Hv. cbn [andb].
  apply orb_true_iff in H as [H|H]; [rewrite H; reflexivity|].
  apply orb_true_iff. right. apply existsb_exists in H as (p & Hp & E). apply andb_true_iff in E as [Ei Es].
  apply existsb_exists. exists p. split; [exact Hp|]. rewrite Ei. cbn [andb]. apply IH, Es.
Qed.
Lemma search_mono_le now inter anchors f f' c : (f <= f')%nat -> search f now inter anchors c = true -> search f' now inter anchors c = true.
Proof. induction 1 as [|f' Hle IH]; intros H; [exact H|]. apply search_mono, IH, H. Qed.

Lemma search_complete now inter anchors : forall path c, ValidPath now anchors (c :: path) ->
  (forall x, In x (removelast path) -> In x inter) -> search (S (length path)) now inter anchors c = true.
Proof.
  induction path as [|p rest IH]; intros c HV Hincl.
  - apply vp_single_inv in HV as [Hin Hv]. cbn [search length]. apply in_validity_b_spec in Hv. rewrite Hv. cbn [andb].
    apply orb_true_iff. left. apply orb_true_iff. left. apply existsb_exists. exists c. split; [exact Hin|apply xcert_eqb_eq; reflexivity].
  - apply vp_cons_inv in HV as (Hv & Hi & Hrest).
    cbn [length]. cbn [search]. apply in_validity_b_spec in Hv. rewrite Hv. cbn [andb].
    apply issued_by_b_spec in Hi.
    destruct rest as [|r rest'].
    + apply vp_single_inv in Hrest as [Hin Hvp]. apply in_validity_b_spec in Hvp.
      apply orb_true_iff. left. apply orb_true_iff. right. apply existsb_exists. exists p. split; [exact Hin|]. rewrite Hi, Hvp. reflexivity.
    + apply orb_true_iff. right. apply existsb_exists. exists p. split.
      * apply Hincl. change (removelast (p :: r :: rest')) with (p :: removelast (r :: rest')). left. reflexivity.
      * rewrite Hi. cbn [andb]. apply IH; [exact Hrest|].
        intros x Hx. apply Hincl. change (removelast (p :: r :: rest')) with (p :: removelast (r :: rest')). right. exact Hx.
Qed.

(* ---------- cutting repetitions out of a path ---------- *)
Lemma valid_path_suffix now anchors : forall pre a post, ValidPath now anchors (pre ++ a :: post) -> ValidPath now anchors (a :: post).
Proof.
  induction pre as [|c pre IH]; intros a post H; [exact H|].
  cbn [app] in H. destruct pre as [|q pre'].
  - cbn [app] in *. apply vp_cons_inv in H as (_ & _ & H). exact H.
  - cbn [app] in H. apply vp_cons_inv in H as (_ & _ & H). apply (IH a post). exact H.
Qed.

Lemma valid_path_graft now anchors : forall pre a post post',
  ValidPath now anchors (pre ++ a :: post) -> ValidPath now anchors (a :: post') -> ValidPath now anchors (pre ++ a :: post').
Proof.
  induction pre as [|c pre IH]; intros a post post' H H'; [exact H'|].
  cbn [app] in *. destruct pre as [|q pre'].
  - cbn [app] in *. apply vp_cons_inv in H as (Hv & Hi & _). apply vp_step; assumption.
  - cbn [app] in *. apply vp_cons_inv in H as (Hv & Hi & Hrest). apply vp_step; [exact Hv|exact Hi|].
    apply (IH a post post'); assumption.
Qed.

Lemma repeat_exists (l inter : list xcert) : (forall x, In x l -> In x inter) -> (length inter < length l)%nat ->
  exists a l1 l2 l3, l = l1 ++ a :: l2 ++ a :: l3.
Proof.
  intros Hincl Hlen.
  assert (HnD : ~ NoDup l).
  { intros HN. pose proof (NoDup_incl_length HN Hincl). lia. }
  clear Hincl Hlen. induction l as [|x l IH]; [exfalso; apply HnD; constructor|].
  destruct (in_dec xcert_eq_dec x l) as [Hin|Hnin].
  - apply in_split in Hin as (l2 & l3 & ->). exists x, [], l2, l3. reflexivity.
  - destruct IH as (a & l1 & l2 & l3 & ->).
    + intros HN. apply HnD. constructor; assumption.
    + exists a, (x :: l1), l2, l3. reflexivity.
Qed.

Lemma removelast_app_cons {A} (l : list A) x : removelast (l ++ [x]) = l.
Proof. apply removelast_last. Qed.

Lemma short_path now inter anchors leaf : forall n path, length path = n ->
  ValidPath now anchors (leaf :: path) -> (forall x, In x (removelast path) -> In x inter) ->
  exists path', ValidPath now anchors (leaf :: path') /\ (forall x, In x (removelast path') -> In x inter) /\
                (length path' <= S (length inter))%nat.
Proof.
  induction n as [n IH] using lt_wf_ind. intros path Hn HV Hincl.
  destruct (le_lt_dec (length path) (S (length inter))) as [Hle|Hgt]; [exists path; auto|].
  (* path = body ++ [last], body = removelast path longer than inter: a certificate repeats *)
  destruct (exists_last (l := path)) as (body & lastc & ->); [destruct path; [cbn in Hgt; lia|discriminate]|].
  rewrite removelast_last in Hincl. rewrite app_length in Hgt. cbn [length] in Hgt.
  destruct (repeat_exists body inter Hincl ltac:(lia)) as (a & l1 & l2 & l3 & ->).
  (* leaf :: l1 ++ a :: l2 ++ a :: l3 ++ [last]  ~>  leaf :: l1 ++ a :: l3 ++ [last] *)
  assert (HV' : ValidPath now anchors (leaf :: (l1 ++ a :: l3) ++ [lastc])).
  { rewrite <- !app_assoc in HV. cbn [app] in HV. rewrite <- !app_assoc. cbn [app].
    change (leaf :: l1 ++ a :: l3 ++ [lastc]) with ((leaf :: l1) ++ a :: (l3 ++ [lastc])).
    apply (valid_path_graft now anchors (leaf :: l1) a (l2 ++ a :: l3 ++ [lastc]) (l3 ++ [lastc])).
    - rewrite <- !app_assoc in HV. cbn [app] in HV. exact HV.
    - change (leaf :: l1 ++ a :: l2 ++ a :: l3 ++ [lastc]) with (((leaf :: l1) ++ a :: l2) ++ a :: (l3 ++ [lastc])) in HV
        || idtac.
      apply (valid_path_suffix now anchors ((leaf :: l1) ++ a :: l2) a (l3 ++ [lastc])).
      rewrite <- app_assoc. cbn [app]. rewrite <- !app_assoc in HV. cbn [app] in HV. exact HV. }
  apply (IH (length ((l1 ++ a :: l3) ++ [lastc]))) with (path := (l1 ++ a :: l3) ++ [lastc]).
  - subst n. rewrite !app_length. cbn [length]. rewrite !app_length. cbn [length]. lia.
  - reflexivity.
  - exact HV'.
  - rewrite removelast_last. intros x Hx. apply Hincl. apply in_app_or in Hx as [Hx|Hx]; apply in_or_app; [left; exact Hx|].
    right. destruct Hx as [<-|Hx]; [left; reflexivity|]. right. apply in_or_app. right. right. exact Hx.
Qed.

(* ---------- the equivalence ---------- *)
Theorem chain_acceptable_b_spec now x5c anchors : chain_acceptable_b now x5c anchors = true <-> ChainAcceptable now x5c anchors.
Proof.
  unfold chain_acceptable_b, ChainAcceptable. destruct x5c as [|leaf inter]; [split; [discriminate|tauto]|].
  split.
  - apply search_sound.
  - intros (path & HV & Hincl).
    destruct (short_path now inter anchors leaf (length path) path eq_refl HV Hincl) as (path' & HV' & Hincl' & Hlen).
    apply (search_mono_le now inter anchors (S (length path'))); [lia|]. apply search_complete; assumption.
Qed.

Lemma spec_rejects now leaf inter anchors :
  (~ in_validity now leaf) \/
  (~ In leaf anchors /\ forall p, In p (inter ++ anchors) -> ~ issued_by leaf p) ->
  ~ ChainAcceptable now (leaf :: inter) anchors.
Proof.
  intros H (path & HV & Hincl). destruct H as [H|[Hna Hni]].
  - apply H. destruct path as [|p rest]; [apply vp_single_inv in HV as [_ Hv]; exact Hv|apply vp_cons_inv in HV as (Hv & _ & _); exact Hv].
  - destruct path as [|p rest].
    + apply vp_single_inv in HV as [Hin _]. exact (Hna Hin).
    + apply vp_cons_inv in HV as (_ & Hi & Hrest). apply (Hni p); [|exact Hi].
      apply in_or_app. destruct rest as [|r rest'].
      * right. apply vp_single_inv in Hrest as [Hin _]. exact Hin.
      * left. apply Hincl. change (removelast (p :: r :: rest')) with (p :: removelast (r :: rest')). left. reflexivity.
Qed.
