From Coq Require Import ZArith List Bool Lia.
From PW Require Import Model.Base Model.Heap.
Import ListNotations.
Open Scope nat_scope.

Lemma h_set_length h a v : length (h_set h a v) = length h.
Proof. revert a. induction h as [|x h IH]; intros [|a]; cbn; auto. Qed.
Lemma h_get_set_same h a v : a < length h -> h_get (h_set h a v) a = v.
Proof. revert a. induction h as [|x h IH]; intros [|a] H; cbn in *; try lia; auto. apply IH. lia. Qed.
Lemma h_get_set_other h a b v : a <> b -> h_get (h_set h a v) b = h_get h b.
Proof. revert a b. induction h as [|x h IH]; intros [|a] [|b] H; cbn; auto; try congruence. apply IH. congruence. Qed.
Lemma h_get_app_l h t a : a < length h -> h_get (h ++ t) a = h_get h a.
Proof. intros H. unfold h_get. apply app_nth1, H. Qed.
Lemma h_get_app_new h x : h_get (h ++ [x]) (length h) = x.
Proof. unfold h_get. rewrite app_nth2 by lia. rewrite Nat.sub_diag. reflexivity. Qed.

(* verification never modifies the lists it was passed: every pre-existing object is unchanged *)
Theorem verify_roots_frame h caller builtin a : a < length h ->
  h_get (fst (verify_roots h caller builtin)) a = h_get h a.
Proof.
  intros Ha. unfold verify_roots. cbn [fst].
  assert (Hne : length h <> a) by lia.
  destruct caller as [c|].
  - rewrite h_get_set_other by exact Hne. rewrite h_get_set_other by exact Hne. apply h_get_app_l, Ha.
  - rewrite h_get_set_other by exact Hne. apply h_get_app_l, Ha.
Qed.

(* and the format verifier sees the caller's roots followed by the built-in ones, in a fresh object *)
Theorem verify_roots_contents h caller builtin :
  match caller with Some c => c < length h | None => True end ->
  h_get (fst (verify_roots h caller builtin)) (snd (verify_roots h caller builtin)) =
    match caller with Some c => h_get h c | None => [] end ++ builtin /\
  snd (verify_roots h caller builtin) = length h.
Proof.
  intros Hc. unfold verify_roots. cbn [fst snd]. split; [|reflexivity].
  assert (L1 : length (h ++ [[]]) = S (length h)) by (rewrite app_length; cbn; lia).
  destruct caller as [c|].
  - rewrite h_get_set_same by (rewrite h_set_length, L1; lia).
    rewrite h_get_set_same by (rewrite L1; lia). rewrite h_get_app_new. cbn [app].
    rewrite h_get_app_l by exact Hc. reflexivity.
  - rewrite h_get_set_same by (rewrite L1; lia). rewrite h_get_app_new. reflexivity.
Qed.

(* history-freedom of option generation: whatever earlier callers do to the objects they were given back,
   every call without an algorithm list returns the same default parameters *)
Definition Inv (algs : list Z) (s : st) : Prop :=
  h_get (s_heap s) 1 = algs /\ 2 <= length (s_heap s) /\
  Forall (fun a => 2 <= a < length (s_heap s)) (s_returned s) /\
  Forall (fun out => out = algs) (s_outputs s).

Lemma inv_init params algs : Inv algs (init params algs).
Proof. unfold Inv, init. cbn. repeat split; auto. Qed.

Lemma inv_step algs s o : Inv algs s -> Inv algs (step s o).
Proof.
  intros (H1 & H2 & H3 & H4). destruct o as [|i v]; cbn [step].
  - unfold Inv, gen_default. cbv beta iota zeta. cbn [s_heap s_returned s_outputs].
    assert (L : length (s_heap s ++ [h_get (s_heap s) 1]) = S (length (s_heap s))) by (rewrite app_length; cbn; lia).
    repeat split.
    + rewrite h_get_app_l by lia. exact H1.
    + lia.
    + apply Forall_app. split.
      * eapply Forall_impl; [|exact H3]. cbn. intros a Ha. lia.
      * constructor; [lia|constructor].
    + apply Forall_app. split; [exact H4|]. constructor; [|constructor]. rewrite h_get_app_new. exact H1.
  - destruct (nth_error (s_returned s) i) as [a|] eqn:E; [|repeat split; assumption].
    unfold Inv. cbn [s_heap s_returned s_outputs].
    assert (Ha : 2 <= a < length (s_heap s)).
    { rewrite Forall_forall in H3. apply H3. eapply nth_error_In. exact E. }
    repeat split.
    + rewrite h_get_set_other by lia. exact H1.
    + rewrite h_set_length. exact H2.
    + rewrite h_set_length. exact H3.
    + exact H4.
Qed.

Theorem history_free params algs ops :
  Forall (fun out => out = algs) (s_outputs (fold_left step ops (init params algs))).
Proof.
  assert (H : Inv algs (fold_left step ops (init params algs))).
  { generalize (inv_init params algs). generalize (init params algs). induction ops as [|o ops IH]; intros s Hs; cbn [fold_left]; [exact Hs|].
    apply IH, inv_step, Hs. }
  apply H.
Qed.

(* the defect that was repaired: had the call returned the module-level list itself (address 0), the 3-operation
   history [generate; clear the result; generate] would yield an empty parameter list *)
Definition step_aliasing (s : st) (o : op) : st :=
  match o with
  | OGen => {| s_heap := s_heap s; s_returned := s_returned s ++ [0]; s_outputs := s_outputs s ++ [h_get (s_heap s) 0] |}
  | OMutate i v => step s (OMutate i v)
  end.
Example aliasing_is_history_dependent :
  s_outputs (fold_left step_aliasing [OGen; OMutate 0 []; OGen] (init [7; 8]%Z [7; 8]%Z)) = [[7; 8]%Z; []].
Proof. reflexivity. Qed.
