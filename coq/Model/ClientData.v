(* helpers/parse_client_data_json.py and the client-data comparisons shared by both verifiers *)
From Coq Require Import ZArith List Bool String.
From PW Require Import Model.Base Model.Json Model.Base64 Model.Oracles.
Import ListNotations.
Open Scope Z_scope.

Record client_data := {
  cd_type : json; cd_challenge : bytes; cd_origin : json;
  cd_token_binding : option json }.          (* status of an accepted tokenBinding object *)

Definition k_type := s2l "type".
Definition k_challenge := s2l "challenge".
Definition k_origin := s2l "origin".

Definition parse_client_data (O : oracles) (raw : bytes) : res client_data :=
  match o_json_loads O false raw with
  | JDecodeError => Err (Lib InvalidJSONStructure)
  | JUnicodeError => Err (Lib InvalidJSONStructure)     (* `except ValueError` since the F10 fix *)
  | JOtherError => Err Unmodelled
  | JOk (JObj m) =>
      if negb (jhas m k_type) then Err (Lib InvalidJSONStructure)
      else if negb (jhas m k_challenge) then Err (Lib InvalidJSONStructure)
      else if negb (jhas m k_origin) then Err (Lib InvalidJSONStructure)
      else
        match py_format (jget_none m k_challenge) with
        | None => Err Unmodelled
        | Some chs =>
            let* ch := b64url_dec chs in
            let* tb :=
              match jget m (s2l "tokenBinding") with
              | Some (JObj t) =>
                  match jget t (s2l "status") with
                  | None => Err (Lib InvalidJSONStructure)
                  | Some st => Ok (Some st)
                  end
              | _ => Ok None
              end in
            Ok {| cd_type := jget_none m k_type; cd_challenge := ch;
                  cd_origin := jget_none m k_origin; cd_token_binding := tb |}
        end
  | JOk (JArr l) =>
      (* `"type" in [...]` is list membership; then json_dict["type"] is a TypeError *)
      let has k := existsb (fun j => jstr_is j k) l in
      if has k_type && has k_challenge && has k_origin then Err (Py TypeError)
      else Err (Lib InvalidJSONStructure)
  | JOk (JStr s) =>
      if is_substr k_type s && is_substr k_challenge s && is_substr k_origin s then Err (Py TypeError)
      else Err (Lib InvalidJSONStructure)
  | JOk _ => Err (Py TypeError)
  end.

(* expected_origin: str | list of str *)
Inductive origin_exp := OSingle (s : pystr) | OMany (l : list pystr).

Definition origin_ok (e : origin_exp) (o : json) : bool :=
  match e with
  | OSingle s => jstr_is o s
  | OMany l => existsb (fun s => jstr_is o s) l
  end.

Definition token_binding_ok (allowed : list string) (tb : option json) : bool :=
  match tb with
  | None => true
  | Some st => existsb (fun a => jstr_is st (s2l a)) allowed
  end.
