(* helpers/options_to_json.py (as the JSON value handed to json.dumps), parse_registration_options_json.py,
   parse_authentication_options_json.py *)
From Coq Require Import ZArith List Bool String.
From PW Require Import Model.Base Model.Json Model.Base64 Model.Oracles Model.CredJson Model.Options Generated.Constants.
Import ListNotations.
Open Scope Z_scope.

Definition jstr (s : string) : pystr := s2l s.
Definition opt_kv {A} (k : string) (f : A -> json) (o : option A) : list (pystr * json) :=
  match o with Some a => [(jstr k, f a)] | None => [] end.

Definition descriptor_json (d : descriptor) : json :=
  JObj ([(jstr "id", JStr (b64url_enc (d_id d))); (jstr "type", JStr (d_type d))]
        ++ match opt_nonempty (d_transports d) with
           | Some t => [(jstr "transports", JArr (map JStr t))]
           | None => []
           end).

Definition auth_sel_json (s : auth_sel) : json :=
  JObj (opt_kv "authenticatorAttachment" JStr (as_attachment s)
        ++ opt_kv "residentKey" JStr (as_resident_key s)
        ++ opt_kv "requireResidentKey" JBool (as_require_rk s)
        ++ opt_kv "userVerification" JStr (as_uv s)).

Definition creation_options_json (o : creation_options) : json :=
  JObj ([(jstr "rp", JObj ([(jstr "name", JStr (co_rp_name o))]
                           ++ match opt_nonempty (co_rp_id o) with Some i => [(jstr "id", JStr i)] | None => [] end));
         (jstr "user", JObj [(jstr "id", JStr (b64url_enc (co_user_id o))); (jstr "name", JStr (co_user_name o));
                             (jstr "displayName", JStr (co_display_name o))]);
         (jstr "challenge", JStr (b64url_enc (co_challenge o)));
         (jstr "pubKeyCredParams", JArr (map (fun p => JObj [(jstr "type", JStr (fst p)); (jstr "alg", JInt (snd p))]) (co_params o)))]
        ++ opt_kv "timeout" JInt (co_timeout o)
        ++ opt_kv "excludeCredentials" (fun l => JArr (map descriptor_json l)) (co_exclude o)
        ++ opt_kv "authenticatorSelection" auth_sel_json (co_auth_sel o)
        ++ opt_kv "attestation" JStr (co_attestation o)
        ++ opt_kv "hints" (fun l => JArr (map JStr l)) (co_hints o)).

Definition request_options_json (o : request_options) : json :=
  JObj ([(jstr "challenge", JStr (b64url_enc (ro_challenge o)))]
        ++ opt_kv "timeout" JInt (ro_timeout o)
        ++ opt_kv "rpId" JStr (ro_rp_id o)
        ++ opt_kv "allowCredentials" (fun l => JArr (map descriptor_json l)) (ro_allow o)
        ++ match ro_uv o with Some u => if is_nil u then [] else [(jstr "userVerification", JStr u)] | None => [] end).

(* ---------- parsers ---------- *)
Definition IJS {A} : res A := Err (Lib InvalidJSONStructure).

(* Enum(value) for a str-valued enum: match -> the value; anything else -> ValueError *)
Definition enum_lookup (e : list (string * string)) (v : json) : option pystr :=
  match v with JStr s => if enum_has e v then Some s else None | _ => None end.

Fixpoint map_opt {A B} (f : A -> option B) (l : list A) : option (list B) :=
  match l with
  | [] => Some []
  | x :: r => match f x, map_opt f r with Some y, Some t => Some (y :: t) | _, _ => None end
  end.

(* isinstance(x, int): bools are ints *)
Definition json_int (j : json) : option Z :=
  match j with JInt z => Some z | JBool b => Some (if b then 1 else 0) | _ => None end.

Fixpoint parse_descriptors (l : list json) : res (list descriptor) :=
  match l with
  | [] => Ok []
  | JObj c :: r =>
      match jget_none c (jstr "id") with
      | JStr i =>
          let* idb := b64url_dec i in                       (* decoded outside any try: ValueError *)
          let* tr := match jget_none c (jstr "transports") with
                     | JNull => Ok None
                     | JArr t => match map_opt (enum_lookup transport_enum) t with
                                 | Some ts => Ok (Some ts)
                                 | None => IJS
                                 end
                     | _ => IJS
                     end in
          let* rest := parse_descriptors r in
          Ok ({| d_id := idb; d_type := public_key_t; d_transports := tr |} :: rest)
      | _ => IJS
      end
  | _ :: _ => Err (Py AttributeError)                       (* cred.get on a non-dict *)
  end.

Definition parse_cred_list (v : json) : res (option (list descriptor)) :=
  match v with
  | JArr l => let* ds := parse_descriptors l in Ok (Some ds)
  | _ => Ok None
  end.

Definition cose_alg_ok (z : Z) : bool := existsb (fun p => snd p =? z) cose_alg_enum.

Fixpoint parse_params (l : list json) : res (list (pystr * Z)) :=
  match l with
  | [] => Ok []
  | JObj p :: r =>
      match jget p (jstr "alg") with
      | None => Err (Py KeyError)
      | Some (JInt z) => if cose_alg_ok z then let* t := parse_params r in Ok ((public_key_t, z) :: t) else IJS
      | Some (JBool b) => if cose_alg_ok (if b then 1 else 0) then Err Unmodelled else IJS
      | Some (JFloat _) => Err Unmodelled
      | Some _ => IJS
      end
  | _ :: _ => Err (Py TypeError)
  end.

Definition parse_auth_sel (v : json) : res (option auth_sel) :=
  match v with
  | JObj s =>
      let* attach := match jget_none s (jstr "authenticatorAttachment") with
                     | JNull => Ok None
                     | v => match enum_lookup attachment_enum v with Some a => Ok (Some a) | None => IJS end
                     end in
      let* rk := match jget_none s (jstr "residentKey") with
                 | JNull => Ok None
                 | v => match enum_lookup resident_key_enum v with Some a => Ok (Some a) | None => IJS end
                 end in
      let* rrk := match jget_none s (jstr "requireResidentKey") with
                  | JNull => Ok false
                  | JBool b => Ok b
                  | _ => IJS
                  end in
      let* uv := match jget_none s (jstr "userVerification") with
                 | JNull => Ok (s2l "preferred")
                 | v => match enum_lookup user_verification_enum v with Some a => Ok a | None => IJS end
                 end in
      Ok (Some {| as_attachment := attach; as_resident_key := rk; as_require_rk := Some rrk; as_uv := Some uv |})
  | _ => Ok None
  end.

Definition parse_reg_options_json (O : oracles) (inp : pystr + json) : res creation_options :=
  let* m := load_obj O inp in
  let* rp := get_obj m "rp" in
  let* rp_id := match jget_none rp (jstr "id") with JNull => Ok None | JStr s => Ok (Some s) | _ => IJS end in
  let* rp_name := get_str rp "name" in
  let* user := get_obj m "user" in
  let* uid := get_str user "id" in
  let* uname := get_str user "name" in
  let* udisp := get_str user "displayName" in
  let* att0 := get_str m "attestation" in
  let* att := match enum_lookup attestation_pref_enum (JStr att0) with Some a => Ok a | None => IJS end in
  let* sel := parse_auth_sel (jget_none m (jstr "authenticatorSelection")) in
  let* ch := get_str m "challenge" in
  let* params := match jget_none m (jstr "pubKeyCredParams") with JArr l => parse_params l | _ => IJS end in
  let* excl := parse_cred_list (jget_none m (jstr "excludeCredentials")) in
  let timeout := json_int (jget_none m (jstr "timeout")) in
  let* hints := match jget_none m (jstr "hints") with
                | JNull => Ok None
                | JArr l => match map_opt (enum_lookup hint_enum) l with Some h => Ok (Some h) | None => IJS end
                | _ => IJS
                end in
  wrap InvalidRegistrationOptions (
    let* uidb := b64url_dec uid in
    let* chb := b64url_dec ch in
    Ok {| co_rp_id := rp_id; co_rp_name := rp_name; co_user_id := uidb; co_user_name := uname;
          co_display_name := udisp; co_challenge := chb; co_params := params; co_timeout := timeout;
          co_exclude := excl; co_auth_sel := sel; co_attestation := Some att; co_hints := hints |}).

Definition parse_auth_options_json (O : oracles) (inp : pystr + json) : res request_options :=
  let* m := load_obj O inp in
  let* ch := get_str m "challenge" in
  let timeout := json_int (jget_none m (jstr "timeout")) in
  let rp_id := match jget_none m (jstr "rpId") with JStr s => Some s | _ => None end in
  let* uv0 := get_str m "userVerification" in
  let* uv := match enum_lookup user_verification_enum (JStr uv0) with Some a => Ok a | None => IJS end in
  let* allow := parse_cred_list (jget_none m (jstr "allowCredentials")) in
  wrap InvalidAuthenticationOptions (
    let* chb := b64url_dec ch in
    Ok {| ro_challenge := chb; ro_timeout := timeout; ro_rp_id := rp_id; ro_allow := allow; ro_uv := Some uv |}).
