(* Exact model of
     bytes_to_base64url  = urlsafe_b64encode(val).decode().rstrip("=")
     base64url_to_bytes  = urlsafe_b64decode(f"{val}===")
   the decoder being CPython's lenient (non-strict) binascii.a2b_base64 state machine. *)
From Coq Require Import ZArith List Bool.
From PW Require Import Model.Base.
Import ListNotations.
Open Scope Z_scope.

(* alphabet index 0..63 -> code point (URL-safe alphabet) *)
Definition enc_char (i : Z) : Z :=
  if i <? 26 then i + 65
  else if i <? 52 then i + 71
  else if i <? 62 then i - 4
  else if i =? 62 then 45 (* - *) else 95 (* _ *).

(* standard alphabet (used by base64.b64encode in the SafetyNet nonce) *)
Definition enc_char_std (i : Z) : Z :=
  if i <? 26 then i + 65
  else if i <? 52 then i + 71
  else if i <? 62 then i - 4
  else if i =? 62 then 43 (* + *) else 47 (* / *).

Section Enc.
  Variable ch : Z -> Z.
  (* unpadded encoding *)
  Fixpoint enc_with (l : bytes) : list Z :=
    match l with
    | [] => []
    | [a] => [ch (a / 4); ch ((a mod 4) * 16)]
    | [a; b] => [ch (a / 4); ch ((a mod 4) * 16 + b / 16); ch ((b mod 16) * 4)]
    | a :: b :: c :: r =>
        ch (a / 4) :: ch ((a mod 4) * 16 + b / 16) :: ch ((b mod 16) * 4 + c / 64) :: ch (c mod 64)
        :: enc_with r
    end.
End Enc.

Definition b64url_enc : bytes -> pystr := enc_with enc_char.

(* padded standard base64 (base64.b64encode) *)
Definition b64std_enc (l : bytes) : pystr :=
  let e := enc_with enc_char_std l in
  match (len l) mod 3 with
  | 1 => e ++ [61; 61]
  | 2 => e ++ [61]
  | _ => e
  end.

(* value of a character for the decoder AFTER bytes.translate('-_' -> '+/'); both alphabets are
   therefore accepted, exactly as urlsafe_b64decode does *)
Definition dec_char (c : Z) : option Z :=
  if (65 <=? c) && (c <=? 90) then Some (c - 65)
  else if (97 <=? c) && (c <=? 122) then Some (c - 71)
  else if (48 <=? c) && (c <=? 57) then Some (c + 4)
  else if (c =? 43) || (c =? 45) then Some 62
  else if (c =? 47) || (c =? 95) then Some 63
  else None.

(* binascii.a2b_base64, strict_mode = False.  qp = quad_pos, lf = leftchar, pads = pad counter.
   None = binascii.Error (data characters = 1 mod 4, or incorrect padding). *)
Fixpoint a2b (s : list Z) (qp lf pads : Z) : option bytes :=
  match s with
  | [] => if qp =? 0 then Some [] else None
  | c :: r =>
      if c =? 61 then
        if (2 <=? qp) && (4 <=? qp + (pads + 1)) then Some []
        else a2b r qp lf (if 2 <=? qp then pads + 1 else pads)
      else
        match dec_char c with
        | None => a2b r qp lf pads
        | Some v =>
            if qp =? 0 then a2b r 1 v 0
            else if qp =? 1 then option_map (cons (lf * 4 + v / 16)) (a2b r 2 (v mod 16) 0)
            else if qp =? 2 then option_map (cons (lf * 16 + v / 4)) (a2b r 3 (v mod 4) 0)
            else option_map (cons (lf * 64 + v)) (a2b r 0 0 0)
        end
  end.

Definition is_ascii (s : pystr) : bool := forallb (fun c => (0 <=? c) && (c <? 128)) s.

(* base64url_to_bytes(val) for a str val *)
Definition b64url_dec (s : pystr) : res bytes :=
  if is_ascii s then
    match a2b (s ++ [61; 61; 61]) 0 0 0 with
    | Some b => Ok b
    | None => Err (Py ValueError)       (* binascii.Error is a ValueError *)
    end
  else Err (Py ValueError).             (* "string argument should contain only ASCII characters" *)
