(* Base vocabulary of the model: bytes, Python-like slices, big-endian ints, outcome monad.
   Definitions only (no proofs) so that the model still builds and runs when a proof breaks. *)
From Coq Require Import ZArith List Bool.
Import ListNotations.
Open Scope Z_scope.

Definition bytes := list Z.
Definition pystr := list Z.            (* Python str as a list of code points *)

Definition byte_ok (b : Z) : bool := (0 <=? b) && (b <? 256).
Definition bytes_ok (l : bytes) : bool := forallb byte_ok l.

Definition len {A} (l : list A) : Z := Z.of_nat (length l).

(* Python slice val[a:b] for 0 <= a (clamps exactly like Python) *)
Definition slice {A} (a b : Z) (l : list A) : list A :=
  firstn (Z.to_nat (b - a)) (skipn (Z.to_nat a) l).
Definition drop {A} (a : Z) (l : list A) : list A := skipn (Z.to_nat a) l.

(* int.from_bytes(x, "big") *)
Fixpoint be_int_acc (acc : Z) (l : bytes) : Z :=
  match l with [] => acc | b :: r => be_int_acc (acc * 256 + b) r end.
Definition be_int (l : bytes) : Z := be_int_acc 0 l.

Fixpoint list_eqb {A} (eqb : A -> A -> bool) (a b : list A) : bool :=
  match a, b with
  | [], [] => true
  | x :: a', y :: b' => eqb x y && list_eqb eqb a' b'
  | _, _ => false
  end.
Definition bytes_eqb : bytes -> bytes -> bool := list_eqb Z.eqb.
Definition str_eqb : pystr -> pystr -> bool := list_eqb Z.eqb.

(* ---- outcomes ---- *)
Inductive lib_exn :=
| WebAuthnException | InvalidRegistrationOptions | InvalidRegistrationResponse
| InvalidAuthenticationOptions | InvalidAuthenticationResponse | InvalidPublicKeyStructure
| UnsupportedPublicKeyType | InvalidJSONStructure | InvalidAuthenticatorDataStructure
| SignatureVerificationException | UnsupportedAlgorithm | UnsupportedPublicKey
| UnsupportedEC2Curve | InvalidTPMPubAreaStructure | InvalidTPMCertInfoStructure
| InvalidCertificateChain | InvalidBackupFlags | InvalidCBORData.

Inductive py_exn := KeyError | TypeError | ValueError | IndexError | AttributeError | OtherPy.

Inductive exn := Lib (c : lib_exn) | Py (k : py_exn) | Unmodelled.

Inductive res (A : Type) := Ok (a : A) | Err (e : exn).
Arguments Ok {A} a.
Arguments Err {A} e.

Definition bind {A B} (r : res A) (f : A -> res B) : res B :=
  match r with Ok a => f a | Err e => Err e end.
Definition guard (c : bool) (e : exn) : res unit := if c then Ok tt else Err e.

Notation "'let*' x ':=' r 'in' k" := (bind r (fun x => k))
  (at level 200, x pattern, r at level 100, k at level 200, right associativity).
Notation "c ';;;' k" := (bind c (fun _ => k)) (at level 199, right associativity).

Definition is_ok {A} (r : res A) : bool := match r with Ok _ => true | Err _ => false end.
Definition is_lib_err {A} (r : res A) : bool := match r with Err (Lib _) => true | _ => false end.

(* ASCII literal helper: Coq strings -> code points *)
From Coq Require Import String Ascii.
Fixpoint s2l (s : string) : list Z :=
  match s with EmptyString => [] | String c r => Z.of_nat (nat_of_ascii c) :: s2l r end.
