(* authentication/verify_authentication_response.py *)
From Coq Require Import ZArith List Bool String.
From PW Require Import Model.Base Model.SigTypes Model.Json Model.Base64 Model.Utf8 Model.Cbor Model.AuthData
  Model.Oracles Model.ClientData Model.CredJson Model.Cose Model.SigAlg Generated.Constants.
Import ListNotations.
Open Scope Z_scope.

Record auth_policy := {
  ap_challenge : bytes; ap_rp_id : pystr; ap_origin : origin_exp;
  ap_pubkey : bytes; ap_count : Z; ap_require_uv : bool }.

Record verified_auth := {
  va_cred_id : bytes; va_new_count : Z; va_multi_device : bool; va_backed_up : bool; va_uv : bool }.

Definition counter_ok (stored c : Z) : bool :=
  negb (((0 <? c) || (0 <? stored)) && (c <=? stored)).

Definition webauthn_get : pystr := s2l "webauthn.get".
Definition webauthn_create : pystr := s2l "webauthn.create".

Definition rp_id_hash (O : oracles) (rp : pystr) : res bytes :=
  match utf8_encode rp with Some b => Ok (sha256 O b) | None => Err (Py ValueError) end.

Definition verify_auth_rec (O : oracles) (P : auth_policy) (c : auth_cred) : res verified_auth :=
  guard (str_eqb (b64url_enc (acr_raw_id c)) (acr_id c)) (Lib InvalidAuthenticationResponse) ;;;
  guard (str_eqb (acr_type c) public_key_s) (Lib InvalidAuthenticationResponse) ;;;
  let cdj := acr_client_data c in
  let adb := acr_auth_data c in
  let* cd := parse_client_data O cdj in
  guard (jstr_is (cd_type cd) webauthn_get) (Lib InvalidAuthenticationResponse) ;;;
  guard (bytes_eqb (ap_challenge P) (cd_challenge cd)) (Lib InvalidAuthenticationResponse) ;;;
  guard (origin_ok (ap_origin P) (cd_origin cd)) (Lib InvalidAuthenticationResponse) ;;;
  guard (token_binding_ok token_binding_ok_auth (cd_token_binding cd)) (Lib InvalidAuthenticationResponse) ;;;
  let* ad := parse_auth_data adb in
  let* h := rp_id_hash O (ap_rp_id P) in
  guard (bytes_eqb (ad_rp_hash ad) h) (Lib InvalidAuthenticationResponse) ;;;
  guard (f_up ad) (Lib InvalidAuthenticationResponse) ;;;
  guard (negb (ap_require_uv P) || f_uv ad) (Lib InvalidAuthenticationResponse) ;;;
  guard (counter_ok (ap_count P) (ad_count ad)) (Lib InvalidAuthenticationResponse) ;;;
  let base := adb ++ sha256 O cdj in
  let* dk := decode_credential_public_key (ap_pubkey P) in
  let* pk := to_crypto O dk in
  let* okv := verify_signature O pk (dk_alg dk) (CBytes (acr_signature c)) base in
  guard okv (Lib InvalidAuthenticationResponse) ;;;
  let* bf := parse_backup_flags (f_be ad) (f_bs ad) in
  Ok {| va_cred_id := acr_raw_id c; va_new_count := ad_count ad;
        va_multi_device := fst bf; va_backed_up := snd bf; va_uv := f_uv ad |}.

Definition verify_auth (O : oracles) (P : auth_policy) (c : cred_in auth_cred) : res verified_auth :=
  let* r := match c with
            | InText s => parse_auth_cred_json O (inl s)
            | InDict j => parse_auth_cred_json O (inr j)
            | InRec r => Ok r
            end in
  verify_auth_rec O P r.

(* an RP that stores the reported counter after each success *)
Definition with_count (P : auth_policy) (s : Z) : auth_policy :=
  {| ap_challenge := ap_challenge P; ap_rp_id := ap_rp_id P; ap_origin := ap_origin P;
     ap_pubkey := ap_pubkey P; ap_count := s; ap_require_uv := ap_require_uv P |}.
Definition rp_step (O : oracles) (P : auth_policy) (s : Z) (c : cred_in auth_cred) : Z :=
  match verify_auth O (with_count P s) c with Ok r => va_new_count r | Err _ => s end.
