(* registration/verify_registration_response.py, helpers/parse_attestation_object.py *)
From Coq Require Import ZArith List Bool String.
From PW Require Import Model.Base Model.SigTypes Model.Json Model.Base64 Model.Utf8 Model.Cbor Model.AuthData
  Model.Oracles Model.ClientData Model.CredJson Model.Cose Model.SigAlg Model.Tpm Model.Formats Model.VerifyAuth
  Generated.Constants.
Import ListNotations.
Open Scope Z_scope.

Record reg_policy := {
  rp_challenge : bytes; rp_rp_id : pystr; rp_origin : origin_exp;
  rp_require_up : bool; rp_require_uv : bool;
  rp_algs : list Z;                                  (* supported_pub_key_algs *)
  rp_roots : list (pystr * list bytes);              (* pem_root_certs_bytes_by_fmt *)
  (* built-in anchors as seen by the format modules (the harness substitutes forged ones in-process) *)
  rp_builtin_apple : list bytes; rp_builtin_android_key : list bytes; rp_builtin_safetynet : list bytes;
  rp_now : Z }.                                      (* int(time.time()) / store time *)

Record verified_reg := {
  vr_cred_id : bytes; vr_pubkey : bytes; vr_count : Z; vr_aaguid : pystr; vr_fmt : bytes;
  vr_type : pystr; vr_uv : bool; vr_att_obj : bytes; vr_multi_device : bool; vr_backed_up : bool }.

Record att_object := { ao_fmt : cbor; ao_auth_data_raw : bytes; ao_auth_data : auth_data; ao_stmt : att_stmt }.

Definition parse_att_object (b : bytes) : res att_object :=
  let* v := parse_cbor b in
  match v with
  | CMap m =>
      match dict_get m (CText (s2l "fmt")) with
      | None => Err (Py KeyError)
      | Some fmt =>
          match dict_get m (CText (s2l "authData")) with
          | None => Err (Py KeyError)
          | Some (CBytes adb) =>
              let* ad := parse_auth_data adb in
              let* st := match dict_get m (CText (s2l "attStmt")) with
                         | None => Ok empty_stmt
                         | Some (CMap sm) => Ok (parse_att_stmt sm)
                         | Some _ => Err Unmodelled
                         end in
              Ok {| ao_fmt := fmt; ao_auth_data_raw := adb; ao_auth_data := ad; ao_stmt := st |}
          | Some _ => Err Unmodelled
          end
      end
  | _ => Err Unmodelled
  end.

Fixpoint roots_for (l : list (pystr * list bytes)) (fmt : bytes) : list bytes :=
  match l with
  | [] => []
  | (k, v) :: r => match utf8_encode k with
                   | Some kb => if bytes_eqb kb fmt then v else roots_for r fmt
                   | None => roots_for r fmt
                   end
  end.

Definition is_nilb {A} (l : list A) : bool := match l with [] => true | _ => false end.

Definition fmt_is (fmt : bytes) (name : string) : bool := bytes_eqb fmt (s2l name).

Definition stmt_any_set (st : att_stmt) : bool :=
  match st_sig st, st_x5c st, st_response st, st_alg st, st_ver st, st_cert_info st, st_pub_area st with
  | None, None, None, None, None, None, None => false
  | _, _, _, _, _, _, _ => true
  end.

(* format dispatch of verify_registration_response *)
Definition verify_statement (O : oracles) (P : reg_policy) (fmt : bytes) (st : att_stmt) (adr cdj : bytes)
    (ad : auth_data) (att : att_cred) : res unit :=
  let roots := roots_for (rp_roots P) fmt in
  let pk := ac_pubkey att in
  if fmt_is fmt "none" then need (negb (stmt_any_set st))
  else if fmt_is fmt "fido-u2f" then
    verify_fido_u2f O (rp_now P) st cdj (ad_rp_hash ad) (ac_cred_id att) pk (ac_aaguid att) roots
  else if fmt_is fmt "packed" then verify_packed O (rp_now P) st adr cdj pk roots
  else if fmt_is fmt "tpm" then verify_tpm O (rp_now P) st adr cdj pk roots
  else if fmt_is fmt "apple" then verify_apple O (rp_now P) st adr cdj pk roots (rp_builtin_apple P)
  else if fmt_is fmt "android-safetynet" then verify_safetynet O (rp_now P) st adr cdj roots (rp_builtin_safetynet P)
  else if fmt_is fmt "android-key" then verify_android_key O (rp_now P) st adr cdj pk roots (rp_builtin_android_key P)
  else IRR.

Definition verify_reg_rec (O : oracles) (P : reg_policy) (c : reg_cred) : res verified_reg :=
  guard (str_eqb (b64url_enc (rcr_raw_id c)) (rcr_id c)) (Lib InvalidRegistrationResponse) ;;;
  guard (str_eqb (rcr_type c) public_key_s) (Lib InvalidRegistrationResponse) ;;;
  let cdj := rcr_client_data c in
  let aob := rcr_att_obj c in
  let* cd := parse_client_data O cdj in
  need (jstr_is (cd_type cd) webauthn_create) ;;;
  need (bytes_eqb (rp_challenge P) (cd_challenge cd)) ;;;
  need (origin_ok (rp_origin P) (cd_origin cd)) ;;;
  need (token_binding_ok token_binding_ok_reg (cd_token_binding cd)) ;;;
  let* ao := parse_att_object aob in
  let ad := ao_auth_data ao in
  let* h := rp_id_hash O (rp_rp_id P) in
  need (bytes_eqb (ad_rp_hash ad) h) ;;;
  need (negb (rp_require_up P) || f_up ad) ;;;
  need (negb (rp_require_uv P) || f_uv ad) ;;;
  match ad_att ad with
  | None => IRR
  | Some att =>
      need (negb (is_nilb (ac_cred_id att))) ;;;
      need (negb (is_nilb (ac_pubkey att))) ;;;
      need (negb (is_nilb (ac_aaguid att))) ;;;
      let* dk := decode_credential_public_key (ac_pubkey att) in
      need (match alg_int (dk_alg dk) with Some a => existsb (Z.eqb a) (rp_algs P) | None => false end) ;;;
      match ao_fmt ao with
      | CText fmt =>
          verify_statement O P fmt (ao_stmt ao) (ao_auth_data_raw ao) cdj ad att ;;;
          let* bf := parse_backup_flags (f_be ad) (f_bs ad) in
          let* ag := aaguid_to_string (ac_aaguid att) in
          Ok {| vr_cred_id := ac_cred_id att; vr_pubkey := ac_pubkey att; vr_count := ad_count ad;
                vr_aaguid := ag; vr_fmt := fmt; vr_type := rcr_type c; vr_uv := f_uv ad;
                vr_att_obj := aob; vr_multi_device := fst bf; vr_backed_up := snd bf |}
      | _ => Err Unmodelled
      end
  end.

Definition verify_reg (O : oracles) (P : reg_policy) (c : cred_in reg_cred) : res verified_reg :=
  let* r := match c with
            | InText s => parse_reg_cred_json O (inl s)
            | InDict j => parse_reg_cred_json O (inr j)
            | InRec r => Ok r
            end in
  verify_reg_rec O P r.
