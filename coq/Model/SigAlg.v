(* helpers/verify_signature.py + algorithms.py (scheme choice from the generated behavioural table)
   and helpers/hash_by_alg.py *)
From Coq Require Import ZArith List Bool String.
From PW Require Import Model.Base Model.SigTypes Model.Cbor Model.Oracles Generated.Constants.
Import ListNotations.
Open Scope Z_scope.

(* default behaviour for algorithm ids outside the probed set, per key kind, as observed on the probes *)
Definition scheme_default (k : key_kind) : scheme_res :=
  match k with
  | KEC => SchErr UnsupportedAlgorithm
  | KRSA => SchErr UnsupportedAlgorithm
  | KED => SchOk ED25519
  | KOTHER => SchErr UnsupportedPublicKey
  end.

Fixpoint sig_lookup (t : list ((key_kind * Z) * scheme_res)) (k : key_kind) (alg : Z) : option scheme_res :=
  match t with
  | [] => None
  | ((k', a'), r) :: t' => if kind_eqb k' k && (a' =? alg) then Some r else sig_lookup t' k alg
  end.

Definition scheme_of (k : key_kind) (alg : Z) : scheme_res :=
  match sig_lookup sig_table k alg with Some r => r | None => scheme_default k end.

(* the declared algorithm as the int Python compares with (True == 1) *)
Definition alg_int (alg : cbor) : option Z :=
  match alg with CInt z => Some z | CBool b => Some (if b then 1 else 0) | _ => None end.

(* verify_signature(public_key, signature_alg, signature, data); Ok false = InvalidSignature raised *)
Definition verify_signature (O : oracles) (k : pubkey) (alg : cbor) (sg : cbor) (msg : bytes) : res bool :=
  let r := match alg_int alg with
           | Some z => scheme_of (kind_of k) z
           | None => scheme_default (kind_of k)     (* no int equals a non-int value *)
           end in
  match r with
  | SchErr c => Err (Lib c)
  | SchOk sch =>
      match sg with
      | CBytes s => Ok (o_verify O k sch s msg)
      | _ => Err (Py TypeError)
      end
  end.

(* hash_by_alg(data, alg): membership in the generated lists; default SHA-256 *)
Definition hash_choice (alg : option Z) : hash_alg :=
  match alg with
  | None => SHA256
  | Some a =>
      if existsb (Z.eqb a) hash_by_alg_SHA_384 then SHA384
      else if existsb (Z.eqb a) hash_by_alg_SHA_512 then SHA512
      else if existsb (Z.eqb a) hash_by_alg_SHA_1 then SHA1
      else SHA256
  end.
Definition hash_by_alg (O : oracles) (data : bytes) (alg : option Z) : bytes := o_hash O (hash_choice alg) data.
