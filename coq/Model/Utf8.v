(* UTF-8: strict validity (as CPython's 'strict' decoder used by cbor2) and str.encode("utf-8"). *)
From Coq Require Import ZArith List Bool.
From PW Require Import Model.Base.
Import ListNotations.
Open Scope Z_scope.

Definition cont (c : Z) : bool := (128 <=? c) && (c <=? 191).
Definition in_rng (lo hi c : Z) : bool := (lo <=? c) && (c <=? hi).

Fixpoint utf8_ok (s : bytes) : bool :=
  match s with
  | [] => true
  | b :: r =>
      if in_rng 0 127 b then utf8_ok r
      else if in_rng 194 223 b then
        match r with c1 :: r' => cont c1 && utf8_ok r' | _ => false end
      else if in_rng 224 239 b then
        match r with
        | c1 :: c2 :: r' =>
            (if b =? 224 then in_rng 160 191 c1 else if b =? 237 then in_rng 128 159 c1 else cont c1)
            && cont c2 && utf8_ok r'
        | _ => false
        end
      else if in_rng 240 244 b then
        match r with
        | c1 :: c2 :: c3 :: r' =>
            (if b =? 240 then in_rng 144 191 c1 else if b =? 244 then in_rng 128 143 c1 else cont c1)
            && cont c2 && cont c3 && utf8_ok r'
        | _ => false
        end
      else false
  end.

(* str.encode("utf-8"): None = UnicodeEncodeError (surrogates) *)
Definition utf8_cp (c : Z) : option bytes :=
  if c <? 0 then None
  else if c <? 128 then Some [c]
  else if c <? 2048 then Some [192 + c / 64; 128 + c mod 64]
  else if (55296 <=? c) && (c <=? 57343) then None
  else if c <? 65536 then Some [224 + c / 4096; 128 + (c / 64) mod 64; 128 + c mod 64]
  else if c <? 1114112 then Some [240 + c / 262144; 128 + (c / 4096) mod 64; 128 + (c / 64) mod 64; 128 + c mod 64]
  else None.

Fixpoint utf8_encode (s : pystr) : option bytes :=
  match s with
  | [] => Some []
  | c :: r => match utf8_cp c, utf8_encode r with
              | Some a, Some b => Some (a ++ b)
              | _, _ => None
              end
  end.
