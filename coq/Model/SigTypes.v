(* Types shared by the generated constants and the signature model. *)
From Coq Require Import ZArith List String.
From PW Require Import Model.Base.

Inductive hash_alg := SHA1 | SHA256 | SHA384 | SHA512.
Inductive scheme := ECDSA (h : hash_alg) | PKCS1 (h : hash_alg) | PSS (h : hash_alg) | ED25519.
Inductive key_kind := KEC | KRSA | KED | KOTHER.
(* what verify_signature does for (key kind, declared alg): hands the key this scheme, or raises *)
Inductive scheme_res := SchOk (s : scheme) | SchErr (c : lib_exn).

Definition hash_eqb (a b : hash_alg) : bool :=
  match a, b with SHA1, SHA1 | SHA256, SHA256 | SHA384, SHA384 | SHA512, SHA512 => true | _, _ => false end.
Definition scheme_eqb (a b : scheme) : bool :=
  match a, b with
  | ECDSA x, ECDSA y | PKCS1 x, PKCS1 y | PSS x, PSS y => hash_eqb x y
  | ED25519, ED25519 => true
  | _, _ => false
  end.
Definition kind_eqb (a b : key_kind) : bool :=
  match a, b with KEC, KEC | KRSA, KRSA | KED, KED | KOTHER, KOTHER => true | _, _ => false end.
