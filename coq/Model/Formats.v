(* registration/formats/*.py, helpers/validate_certificate_chain.py, verify_safetynet_timestamp.py *)
From Coq Require Import ZArith List Bool String.
From PW Require Import Model.Base Model.SigTypes Model.Json Model.Base64 Model.Utf8 Model.Cbor Model.AuthData
  Model.Oracles Model.Cose Model.SigAlg Model.Tpm Generated.Constants.
Import ListNotations.
Open Scope Z_scope.

(* AttestationStatement: a member is "set" iff present and not null *)
Record att_stmt := {
  st_sig : option cbor; st_x5c : option cbor; st_response : option cbor; st_alg : option cbor;
  st_ver : option cbor; st_cert_info : option cbor; st_pub_area : option cbor }.

Definition stmt_field (m : list (cbor * cbor)) (k : string) : option cbor :=
  match dict_get m (CText (s2l k)) with Some CNull => None | x => x end.

Definition parse_att_stmt (m : list (cbor * cbor)) : att_stmt :=
  {| st_sig := stmt_field m "sig"; st_x5c := stmt_field m "x5c"; st_response := stmt_field m "response";
     st_alg := stmt_field m "alg"; st_ver := stmt_field m "ver"; st_cert_info := stmt_field m "certInfo";
     st_pub_area := stmt_field m "pubArea" |}.

Definition empty_stmt : att_stmt :=
  {| st_sig := None; st_x5c := None; st_response := None; st_alg := None; st_ver := None;
     st_cert_info := None; st_pub_area := None |}.

(* `if not stmt.field` *)
Definition unset (f : option cbor) : bool := match f with None => true | Some v => cbor_falsy v end.
Definition fld (f : option cbor) : cbor := match f with Some v => v | None => CNull end.

Definition IRR {A} : res A := Err (Lib InvalidRegistrationResponse).
Definition need (c : bool) : res unit := guard c (Lib InvalidRegistrationResponse).

(* x5c as a list of DER byte strings *)
Fixpoint all_bytes (l : list cbor) : option (list bytes) :=
  match l with
  | [] => Some []
  | CBytes b :: r => match all_bytes r with Some t => Some (b :: t) | None => None end
  | _ => None
  end.
Definition x5c_list (v : cbor) : res (list bytes) :=
  match v with
  | CArr l => match all_bytes l with Some t => Ok t | None => Err Unmodelled end
  | _ => Err Unmodelled
  end.

(* validate_certificate_chain: Ok tt | InvalidCertificateChain *)
Definition validate_chain (O : oracles) (now : Z) (x5c roots : list bytes) : res unit :=
  match roots with
  | [] => Ok tt
  | _ => match x5c with
         | [] => Err (Lib InvalidCertificateChain)
         | _ => match o_chain O now x5c roots with
                | ChainOk => Ok tt
                | ChainInvalid => Err (Lib InvalidCertificateChain)
                | ChainOtherError => Err Unmodelled
                end
         end
  end.
(* try: validate... except InvalidCertificateChain -> InvalidRegistrationResponse *)
Definition chain_or_irr (r : res unit) : res unit :=
  match r with Err (Lib InvalidCertificateChain) => IRR | x => x end.

Definition load_cert (O : oracles) (der : bytes) : res cert :=
  match o_cert O der with Some c => Ok c | None => Err (Py ValueError) end.

(* verify_signature ... except InvalidSignature -> InvalidRegistrationResponse *)
Definition verify_or_irr (O : oracles) (k : pubkey) (alg sg : cbor) (msg : bytes) : res unit :=
  let* ok := verify_signature O k alg sg msg in need ok.

Definition hd_bytes (l : list bytes) : bytes := match l with b :: _ => b | [] => [] end.

(* Python == between two decoded CBOR scalars, where modelled *)
Definition cbor_py_eq (a b : cbor) : res bool :=
  match alg_int a, alg_int b with
  | Some x, Some y => Ok (x =? y)
  | Some _, None | None, Some _ => Ok false
  | None, None =>
      match a, b with
      | CBytes x, CBytes y => Ok (bytes_eqb x y)
      | CText x, CText y => Ok (bytes_eqb x y)
      | CBytes _, CText _ | CText _, CBytes _ => Ok false
      | _, _ => Err Unmodelled
      end
  end.

(* ---------------- packed ---------------- *)
Definition verify_packed (O : oracles) (now : Z) (st : att_stmt) (auth_data cdj cred_pk : bytes) (roots : list bytes) : res unit :=
  need (negb (unset (st_sig st))) ;;;
  need (negb (unset (st_alg st))) ;;;
  let vdata := auth_data ++ sha256 O cdj in
  if negb (unset (st_x5c st)) then
    let* x5c := x5c_list (fld (st_x5c st)) in
    chain_or_irr (validate_chain O now x5c roots) ;;;
    let* c := load_cert O (hd_bytes x5c) in
    verify_or_irr O (c_key c) (fld (st_alg st)) (fld (st_sig st)) vdata
  else
    let* dk := decode_credential_public_key cred_pk in
    let* same := cbor_py_eq (dk_alg dk) (fld (st_alg st)) in
    need same ;;;
    let* pk := to_crypto O dk in
    verify_or_irr O pk (fld (st_alg st)) (fld (st_sig st)) vdata.

(* ---------------- fido-u2f ---------------- *)
Definition zero_aaguid : pystr := s2l "00000000-0000-0000-0000-000000000000".

Definition verify_fido_u2f (O : oracles) (now : Z) (st : att_stmt) (cdj rp_hash cred_id cred_pk aaguid : bytes)
    (roots : list bytes) : res unit :=
  need (negb (unset (st_sig st))) ;;;
  need (negb (unset (st_x5c st))) ;;;
  let* x5c := x5c_list (fld (st_x5c st)) in
  need (negb (1 <? len x5c)) ;;;
  chain_or_irr (validate_chain O now x5c roots) ;;;
  let* ag := aaguid_to_string aaguid in
  need (str_eqb ag zero_aaguid) ;;;
  let* c := load_cert O (hd_bytes x5c) in
  match c_key c with
  | PkEC crv _ _ =>
      need (crv =? 1) ;;;
      let* dk := decode_credential_public_key cred_pk in
      match dk with
      | DEC2 alg kcrv x y =>
          need (cbor_eq_int alg ALG_ES256 && cbor_eq_int kcrv CRV_P256) ;;;
          let* xb := as_bytes x in
          let* yb := as_bytes y in
          let vdata := [0] ++ rp_hash ++ sha256 O cdj ++ cred_id ++ ([4] ++ xb ++ yb) in
          verify_or_irr O (c_key c) (CInt ALG_ES256) (fld (st_sig st)) vdata
      | _ => IRR
      end
  | _ => IRR
  end.

(* ---------------- tpm ---------------- *)
Definition as_bytes_stmt (v : cbor) : res bytes :=
  match v with CBytes b => Ok b | _ => Err Unmodelled end.

Definition tpm_name_hash (O : oracles) (pub_area_raw : bytes) (name_alg : string) : res bytes :=
  match str_assoc tpm_alg_cose_map name_alg with
  | Some a => Ok (hash_by_alg O pub_area_raw (Some a))
  | None => IRR
  end.

Definition san_lookup (attrs : list (pystr * pystr)) (oid : string) : pystr :=
  fold_left (fun acc p => if str_eqb (fst p) (s2l oid) then snd p else acc) attrs [].

Definition check_aik_cert (c : cert) : res unit :=
  need (c_version c =? 3) ;;;
  need (negb (0 <? c_subject_len c)) ;;;
  match c_san c with
  | SanAbsent => IRR
  | SanEmpty => Err (Py IndexError)
  | SanNotDirectory => Err Unmodelled
  | SanDir attrs =>
      let man := san_lookup attrs "2.23.133.2.1" in
      let model := san_lookup attrs "2.23.133.2.2" in
      let ver := san_lookup attrs "2.23.133.2.3" in
      need (negb (match man with [] => true | _ => false end) && negb (match model with [] => true | _ => false end)
            && negb (match ver with [] => true | _ => false end)) ;;;
      need (manufacturer_known man) ;;;
      match c_eku c with
      | None => IRR
      | Some [] => Err (Py IndexError)
      | Some (o :: _) =>
          need (str_eqb o (s2l "2.23.133.8.3")) ;;;
          match c_basic_ca c with
          | None => IRR
          | Some ca => need (negb ca)
          end
      end
  end.

Definition verify_tpm (O : oracles) (now : Z) (st : att_stmt) (auth_data cdj cred_pk : bytes) (roots : list bytes) : res unit :=
  need (negb (unset (st_cert_info st))) ;;;
  need (negb (unset (st_pub_area st))) ;;;
  need (negb (unset (st_alg st))) ;;;
  need (negb (unset (st_x5c st))) ;;;
  need (negb (unset (st_sig st))) ;;;
  need (cbor_eq_text (fld (st_ver st)) (s2l "2.0")) ;;;
  let* x5c := x5c_list (fld (st_x5c st)) in
  chain_or_irr (validate_chain O now x5c roots) ;;;
  let* pa_raw := as_bytes_stmt (fld (st_pub_area st)) in
  let* ci_raw := as_bytes_stmt (fld (st_cert_info st)) in
  let* pa := parse_pub_area pa_raw in
  let* dk := decode_credential_public_key cred_pk in
  (match pa_params pa with
   | RSAParams _ _ _ expo =>
       match dk with
       | DRSA _ n e =>
           need (match n with CBytes nb => bytes_eqb (pa_unique pa) nb | _ => false end) ;;;
           let pe := be_int expo in
           let pe := if pe =? 0 then 65537 else pe in
           let* eb := as_bytes e in
           need (pe =? be_int eb)
       | _ => IRR
       end
   | ECCParams _ _ crv _ =>
       match dk with
       | DEC2 _ kcrv x y =>
           let* xb := as_bytes x in
           let* yb := as_bytes y in
           need (bytes_eqb (pa_unique pa) (xb ++ yb)) ;;;
           match str_assoc tpm_curve_cose_map crv with
           | None => IRR
           | Some c => need (cbor_eq_int kcrv c)
           end
       | _ => IRR
       end
   end) ;;;
  let* ci := parse_cert_info ci_raw in
  need (be_int (ci_magic ci) =? 4283712327) ;;;
  let att_to_be_signed := auth_data ++ hash_by_alg O cdj None in
  let h := hash_by_alg O att_to_be_signed (alg_int (fld (st_alg st))) in
  need (bytes_eqb (ci_extra_data ci) h) ;;;
  let* ph := tpm_name_hash O pa_raw (pa_name_alg pa) in
  need (String.eqb (ci_name_alg ci) (pa_name_alg pa)) ;;;
  need (bytes_eqb (ci_name_alg_bytes ci ++ ph) (ci_name ci)) ;;;
  let* c := load_cert O (hd_bytes x5c) in
  verify_or_irr O (c_key c) (fld (st_alg st)) (fld (st_sig st)) ci_raw ;;;
  check_aik_cert c.

(* ---------------- apple ---------------- *)
Definition verify_apple (O : oracles) (now : Z) (st : att_stmt) (auth_data cdj cred_pk : bytes)
    (roots builtin : list bytes) : res unit :=
  need (negb (unset (st_x5c st))) ;;;
  let* x5c := x5c_list (fld (st_x5c st)) in
  chain_or_irr (validate_chain O now x5c (roots ++ builtin)) ;;;
  let nonce := sha256 O (auth_data ++ sha256 O cdj) in
  let* c := load_cert O (hd_bytes x5c) in
  match c_apple_ext c with
  | None => IRR
  | Some v =>
      need (bytes_eqb (drop 6 v) nonce) ;;;
      let* dk := decode_credential_public_key cred_pk in
      let* pk := to_crypto O dk in
      need (bytes_eqb (c_spki c) (o_spki O pk))
  end.

(* ---------------- android-key ---------------- *)
Fixpoint last_bytes (l : list bytes) : bytes := match l with [] => [] | [x] => x | _ :: r => last_bytes r end.

Definition verify_android_key (O : oracles) (now : Z) (st : att_stmt) (auth_data cdj cred_pk : bytes)
    (roots builtin : list bytes) : res unit :=
  need (negb (unset (st_sig st))) ;;;
  need (negb (unset (st_alg st))) ;;;
  need (negb (unset (st_x5c st))) ;;;
  let* x5c := x5c_list (fld (st_x5c st)) in
  let no_root := removelast x5c in
  let* rootc := load_cert O (last_bytes x5c) in
  chain_or_irr (validate_chain O now no_root [c_pem rootc]) ;;;
  need (existsb (bytes_eqb (c_pem rootc)) (roots ++ builtin)) ;;;
  let vdata := auth_data ++ sha256 O cdj in
  let* c := load_cert O (hd_bytes x5c) in
  verify_or_irr O (c_key c) (fld (st_alg st)) (fld (st_sig st)) vdata ;;;
  let* dk := decode_credential_public_key cred_pk in
  let* pk := to_crypto O dk in
  need (bytes_eqb (c_spki c) (o_spki O pk)) ;;;
  match c_android_ext c with
  | None => IRR
  | Some None => Err Unmodelled
  | Some (Some kd) =>
      need (bytes_eqb (kd_challenge kd) (sha256 O cdj)) ;;;
      need (negb (kd_sw_all_apps kd)) ;;;
      need (negb (kd_tee_all_apps kd)) ;;;
      need (match kd_tee_origin kd with Some 0 => true | _ => false end) ;;;
      need (match kd_tee_purpose kd with Some [2] => true | _ => false end)
  end.

(* ---------------- android-safetynet ---------------- *)
Fixpoint split_dot (s : pystr) (cur : pystr) : list pystr :=
  match s with
  | [] => [rev cur]
  | c :: r => if c =? 46 then rev cur :: split_dot r [] else split_dot r (c :: cur)
  end.

Definition json_truthy (j : json) : bool :=
  match j with
  | JNull => false | JBool b => b | JInt z => negb (z =? 0) | JFloat _ => true
  | JStr s => match s with [] => false | _ => true end
  | JArr l => match l with [] => false | _ => true end
  | JObj m => match m with [] => false | _ => true end
  end.

Definition loads_obj (O : oracles) (b : bytes) : res (list (pystr * json)) :=
  match o_json_loads O false b with
  | JOk (JObj m) => Ok m
  | JOk _ => Err (Py AttributeError)
  | JDecodeError | JUnicodeError => Err (Py ValueError)
  | JOtherError => Err Unmodelled
  end.

Fixpoint str_list (l : list json) : option (list pystr) :=
  match l with
  | [] => Some []
  | JStr s :: r => match str_list r with Some t => Some (s :: t) | None => None end
  | _ => None
  end.

Fixpoint map_res {A B} (f : A -> res B) (l : list A) : res (list B) :=
  match l with
  | [] => Ok []
  | x :: r => let* y := f x in let* t := map_res f r in Ok (y :: t)
  end.

(* verify_safetynet_timestamp: now = int(time.time()) *)
Definition timestamp_ok (now ts : Z) : bool :=
  negb (now * 1000 + 10000 <? ts) && negb (ts <? now * 1000 - 10000).

(* header["x5c"] (default []) and payload["timestampMs"] (default 0) as the verifier reads them *)
Definition sn_x5c_txt (hj : list (pystr * json)) : res (list pystr) :=
  match jget hj (s2l "x5c") with
  | None => Ok []
  | Some (JArr l) => match str_list l with Some t => Ok t | None => Err Unmodelled end
  | Some _ => Err Unmodelled
  end.
Definition sn_timestamp (pj : list (pystr * json)) : res Z :=
  match jget pj (s2l "timestampMs") with
  | None => Ok 0
  | Some (JInt z) => Ok z
  | Some (JBool b) => Ok (if b then 1 else 0)
  | Some _ => Err Unmodelled
  end.

Definition verify_safetynet (O : oracles) (now : Z) (st : att_stmt) (auth_data cdj : bytes)
    (roots builtin : list bytes) : res unit :=
  need (negb (unset (st_ver st))) ;;;
  need (negb (unset (st_response st))) ;;;
  match fld (st_response st) with
  | CBytes resp =>
      if negb (is_ascii resp) then Err (Py ValueError) else
      match split_dot resp [] with
      | [p0; p1; p2] =>
          let* hb := b64url_dec p0 in
          let* hj := loads_obj O hb in
          let* pb := b64url_dec p1 in
          let* pj := loads_obj O pb in
          let nonce := b64std_enc (sha256 O (auth_data ++ sha256 O cdj)) in
          need (jstr_is (match jget pj (s2l "nonce") with Some v => v | None => JStr [] end) nonce) ;;;
          let* x5c_txt := sn_x5c_txt hj in
          let* x5c := map_res b64url_dec x5c_txt in
          need (json_truthy (match jget pj (s2l "basicIntegrity") with Some v => v | None => JBool false end)) ;;;
          let* ts := sn_timestamp pj in
          need (timestamp_ok now ts) ;;;
          let* c := match x5c with [] => Err (Py IndexError) | d :: _ => load_cert O d end in
          match c_subject_cns c with
          | [] => Err (Py IndexError)
          | cn :: _ =>
              need (str_eqb cn (s2l "attest.android.com")) ;;;
              chain_or_irr (validate_chain O now x5c (roots ++ builtin)) ;;;
              let vdata := p0 ++ [46] ++ p1 in
              let* sg := b64url_dec p2 in
              need (jstr_is (match jget hj (s2l "alg") with Some v => v | None => JStr [] end) (s2l "RS256")) ;;;
              verify_or_irr O (c_key c) (CInt ALG_RS256) (CBytes sg) vdata
          end
      | _ => IRR
      end
  | _ => Err Unmodelled
  end.
