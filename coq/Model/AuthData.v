(* helpers/parse_authenticator_data.py, parse_backup_flags.py, aaguid_to_string.py *)
From Coq Require Import ZArith List Bool.
From PW Require Import Model.Base Model.Cbor.
Import ListNotations.
Open Scope Z_scope.

(* flags_bytes & (1 << k) != 0 *)
Definition flag (fl k : Z) : bool := negb (Z.land fl (Z.shiftl 1 k) =? 0).

Record att_cred := { ac_aaguid : bytes; ac_cred_id : bytes; ac_pubkey : bytes }.
Record auth_data := {
  ad_rp_hash : bytes; ad_flags : Z; ad_count : Z;
  ad_att : option att_cred; ad_ext : option bytes }.

Definition f_up (a : auth_data) := flag (ad_flags a) 0.
Definition f_uv (a : auth_data) := flag (ad_flags a) 2.
Definition f_be (a : auth_data) := flag (ad_flags a) 3.
Definition f_bs (a : auth_data) := flag (ad_flags a) 4.
Definition f_at (a : auth_data) := flag (ad_flags a) 6.
Definition f_ed (a : auth_data) := flag (ad_flags a) 7.

(* bytearray.fromhex("a301634f4b500327206745643235353139") *)
Definition bad_eddsa : bytes := [163; 1; 99; 79; 75; 80; 3; 39; 32; 103; 69; 100; 50; 53; 53; 49; 57].

Definition parse_auth_data (v : bytes) : res auth_data :=
  if len v <? 37 then Err (Lib InvalidAuthenticatorDataStructure) else
  let rp := slice 0 32 v in
  let fl := nth 32 v 0 in
  let cnt := be_int (slice 33 37 v) in
  let p := 37 in
  let* (att, v1, p1) :=
    (if flag fl 6 then
       let aaguid := slice p (p + 16) v in
       let idlen := be_int (slice (p + 16) (p + 18) v) in
       let cid := slice (p + 18) (p + 18 + idlen) v in
       let p := p + 18 + idlen in
       let v1 := if bytes_eqb (slice p (p + len bad_eddsa) v) bad_eddsa
                 then slice 0 p v ++ [164] ++ drop (p + 1) v else v in
       let* k := parse_cbor (drop p v1) in
       let kb := cbor_enc k in
       Ok (Some {| ac_aaguid := aaguid; ac_cred_id := cid; ac_pubkey := kb |}, v1, p + len kb)
     else Ok (None, v, p)) in
  let* (ext, p2) :=
    (if flag fl 7 then
       let* e := parse_cbor (drop p1 v1) in
       let eb := cbor_enc e in
       Ok (Some eb, p1 + len eb)
     else Ok (None, p1)) in
  if p2 <? len v1 then Err (Lib InvalidAuthenticatorDataStructure)
  else Ok {| ad_rp_hash := rp; ad_flags := fl; ad_count := cnt; ad_att := att; ad_ext := ext |}.

(* parse_backup_flags: (multi_device?, backed_up) *)
Definition parse_backup_flags (be bs : bool) : res (bool * bool) :=
  if negb be && bs then Err (Lib InvalidBackupFlags) else Ok (be, bs).

(* aaguid_to_string *)
Definition hex_digit (d : Z) : Z := if d <? 10 then 48 + d else 87 + d.
Definition hex_of_bytes (b : bytes) : pystr := flat_map (fun x => [hex_digit (x / 16); hex_digit (x mod 16)]) b.
Definition aaguid_to_string (v : bytes) : res pystr :=
  if negb (len v =? 16) then Err (Py ValueError) else
  let h := hex_of_bytes v in
  Ok (slice 0 8 h ++ [45] ++ slice 8 12 h ++ [45] ++ slice 12 16 h ++ [45] ++ slice 16 20 h ++ [45] ++ slice 20 32 h).
