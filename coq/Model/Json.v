(* JSON values as produced by CPython's json.loads (objects = dicts: unique keys, insertion order). *)
From Coq Require Import ZArith List Bool String.
From PW Require Import Model.Base.
Import ListNotations.
Open Scope Z_scope.

Inductive json :=
| JNull | JBool (b : bool) | JInt (z : Z) | JFloat (id : Z) | JStr (s : pystr)
| JArr (l : list json) | JObj (m : list (pystr * json)).

(* outcome of json.loads: value | JSONDecodeError | any OTHER ValueError (UnicodeDecodeError on bytes that are no UTF-8; the interpreter's
   integer string conversion limit on a number of more than 4300 digits) | anything else (RecursionError...) *)
Inductive jres := JOk (j : json) | JDecodeError | JUnicodeError | JOtherError.

Fixpoint jget (m : list (pystr * json)) (k : pystr) : option json :=
  match m with
  | [] => None
  | (k', v) :: r => if str_eqb k' k then Some v else jget r k
  end.
Definition jhas (m : list (pystr * json)) (k : pystr) : bool :=
  match jget m k with Some _ => true | None => false end.

(* dict.get(k): absent and null are both None *)
Definition jget_none (m : list (pystr * json)) (k : pystr) : json :=
  match jget m k with Some v => v | None => JNull end.

Definition jstr_is (j : json) (s : pystr) : bool :=
  match j with JStr t => str_eqb t s | _ => false end.

(* "sub" in s  for Python strings *)
Fixpoint is_prefix (p s : pystr) : bool :=
  match p, s with
  | [], _ => true
  | a :: p', b :: s' => (a =? b) && is_prefix p' s'
  | _ :: _, [] => false
  end.
Fixpoint is_substr (p s : pystr) : bool :=
  is_prefix p s || match s with [] => false | _ :: s' => is_substr p s' end.

(* decimal text of an int, as f"{n}" *)
Definition digit_cp (d : Z) : Z := 48 + d.
Fixpoint uint_cps (u : Decimal.uint) : pystr :=
  match u with
  | Decimal.Nil => []
  | Decimal.D0 r => 48 :: uint_cps r | Decimal.D1 r => 49 :: uint_cps r
  | Decimal.D2 r => 50 :: uint_cps r | Decimal.D3 r => 51 :: uint_cps r
  | Decimal.D4 r => 52 :: uint_cps r | Decimal.D5 r => 53 :: uint_cps r
  | Decimal.D6 r => 54 :: uint_cps r | Decimal.D7 r => 55 :: uint_cps r
  | Decimal.D8 r => 56 :: uint_cps r | Decimal.D9 r => 57 :: uint_cps r
  end.
Definition z_to_dec (z : Z) : pystr :=
  match Z.to_int z with
  | Decimal.Pos u => uint_cps u
  | Decimal.Neg u => 45 :: uint_cps u
  end.

(* f"{v}" for the JSON value kinds whose text is modelled; None = not modelled (float, list, dict) *)
Definition py_format (j : json) : option pystr :=
  match j with
  | JStr s => Some s
  | JNull => Some (s2l "None")
  | JBool true => Some (s2l "True")
  | JBool false => Some (s2l "False")
  | JInt z => Some (z_to_dec z)
  | _ => None
  end.
