(* helpers/decode_credential_public_key.py, decoded_public_key_to_cryptography.py, algorithms.get_ec2_curve *)
From Coq Require Import ZArith List Bool String.
From PW Require Import Model.Base Model.SigTypes Model.Cbor Model.Oracles Generated.Constants.
Import ListNotations.
Open Scope Z_scope.

Inductive decoded_key :=
| DOKP (alg crv x : cbor)
| DEC2 (alg crv x y : cbor)
| DRSA (alg n e : cbor).

Definition dk_alg (k : decoded_key) : cbor :=
  match k with DOKP a _ _ => a | DEC2 a _ _ _ => a | DRSA a _ _ => a end.

Fixpoint enum_val (e : list (string * Z)) (name : string) : Z :=
  match e with [] => 0 | (n, v) :: r => if String.eqb n name then v else enum_val r name end.

Definition L_KTY := enum_val cose_key_enum "KTY".
Definition L_ALG := enum_val cose_key_enum "ALG".
Definition L_CRV := enum_val cose_key_enum "CRV".
Definition L_X := enum_val cose_key_enum "X".
Definition L_Y := enum_val cose_key_enum "Y".
Definition L_N := enum_val cose_key_enum "N".
Definition L_E := enum_val cose_key_enum "E".
Definition KTY_OKP := enum_val cose_kty_enum "OKP".
Definition KTY_EC2 := enum_val cose_kty_enum "EC2".
Definition KTY_RSA := enum_val cose_kty_enum "RSA".
Definition CRV_P256 := enum_val cose_crv_enum "P256".
Definition CRV_P384 := enum_val cose_crv_enum "P384".
Definition CRV_P521 := enum_val cose_crv_enum "P521".
Definition CRV_ED25519 := enum_val cose_crv_enum "ED25519".
Definition ALG_ES256 := enum_val cose_alg_enum "ECDSA_SHA_256".
Definition ALG_EDDSA := enum_val cose_alg_enum "EDDSA".
Definition ALG_RS256 := enum_val cose_alg_enum "RSASSA_PKCS1_v1_5_SHA_256".

Definition must_get (m : list (cbor * cbor)) (label : Z) : res cbor :=
  match dict_get m (CInt label) with Some v => Ok v | None => Err (Py KeyError) end.
Definition truthy (v : cbor) (e : lib_exn) : res unit := guard (negb (cbor_falsy v)) (Lib e).

Definition decode_credential_public_key (key : bytes) : res decoded_key :=
  match key with
  | [] => Err (Py IndexError)
  | b0 :: _ =>
      if b0 =? 4 then
        Ok (DEC2 (CInt ALG_ES256) (CInt CRV_P256) (CBytes (slice 1 33 key)) (CBytes (slice 33 65 key)))
      else
        let* v := parse_cbor key in
        match v with
        | CMap m =>
            let* kty := must_get m L_KTY in
            let* alg := must_get m L_ALG in
            truthy kty InvalidPublicKeyStructure ;;;
            truthy alg InvalidPublicKeyStructure ;;;
            if cbor_eq_int kty KTY_OKP then
              let* crv := must_get m L_CRV in
              let* x := must_get m L_X in
              truthy crv InvalidPublicKeyStructure ;;; truthy x InvalidPublicKeyStructure ;;;
              Ok (DOKP alg crv x)
            else if cbor_eq_int kty KTY_EC2 then
              let* crv := must_get m L_CRV in
              let* x := must_get m L_X in
              let* y := must_get m L_Y in
              truthy crv InvalidPublicKeyStructure ;;; truthy x InvalidPublicKeyStructure ;;;
              truthy y InvalidPublicKeyStructure ;;;
              Ok (DEC2 alg crv x y)
            else if cbor_eq_int kty KTY_RSA then
              let* n := must_get m L_N in
              let* e := must_get m L_E in
              truthy n InvalidPublicKeyStructure ;;; truthy e InvalidPublicKeyStructure ;;;
              Ok (DRSA alg n e)
            else Err (Lib UnsupportedPublicKeyType)
        | _ => Err Unmodelled      (* indexing a non-dict: list/str/bytes indexing quirks are not modelled *)
        end
  end.

(* int(codecs.encode(x, "hex"), 16) needs a bytes object *)
Definition as_bytes (v : cbor) : res bytes :=
  match v with CBytes b => Ok b | _ => Err (Py TypeError) end.

Definition get_ec2_curve (crv : cbor) : res Z :=
  if cbor_eq_int crv CRV_P256 then Ok 1
  else if cbor_eq_int crv CRV_P384 then Ok 2
  else if cbor_eq_int crv CRV_P521 then Ok 3
  else Err (Lib UnsupportedEC2Curve).

Definition to_crypto (O : oracles) (k : decoded_key) : res pubkey :=
  match k with
  | DEC2 _ crv x y =>
      let* xb := as_bytes x in
      let* yb := as_bytes y in
      let* c := get_ec2_curve crv in
      let pk := PkEC c (be_int xb) (be_int yb) in
      guard (o_key_ok O pk) (Py ValueError) ;;; Ok pk
  | DRSA _ n e =>
      let* eb := as_bytes e in
      let* nb := as_bytes n in
      let pk := PkRSA (be_int nb) (be_int eb) in
      guard (o_key_ok O pk) (Py ValueError) ;;; Ok pk
  | DOKP alg crv x =>
      guard (cbor_eq_int alg ALG_EDDSA && cbor_eq_int crv CRV_ED25519) (Lib UnsupportedPublicKey) ;;;
      let* xb := as_bytes x in
      let pk := PkEd xb in
      guard (o_key_ok O pk) (Py ValueError) ;;; Ok pk
  end.
