(* registration/generate_registration_options.py, authentication/generate_authentication_options.py,
   helpers/generate_challenge.py, generate_user_handle.py *)
From Coq Require Import ZArith List Bool String.
From PW Require Import Model.Base Generated.Constants.
Import ListNotations.
Open Scope Z_scope.

Record descriptor := { d_id : bytes; d_type : pystr; d_transports : option (list pystr) }.
Record auth_sel := {
  as_attachment : option pystr; as_resident_key : option pystr;
  as_require_rk : option bool; as_uv : option pystr }.

Record reg_args := {
  ra_rp_id : pystr; ra_rp_name : pystr; ra_user_name : pystr;
  ra_user_id : option bytes; ra_display_name : option pystr; ra_challenge : option bytes;
  ra_timeout : Z; ra_attestation : pystr; ra_auth_sel : option auth_sel;
  ra_exclude : option (list descriptor); ra_algs : option (list Z); ra_hints : option (list pystr) }.

Record creation_options := {
  co_rp_id : option pystr; co_rp_name : pystr;
  co_user_id : bytes; co_user_name : pystr; co_display_name : pystr;
  co_challenge : bytes; co_params : list (pystr * Z); co_timeout : option Z;
  co_exclude : option (list descriptor); co_auth_sel : option auth_sel;
  co_attestation : option pystr; co_hints : option (list pystr) }.

Record auth_args := {
  aa_rp_id : pystr; aa_challenge : option bytes; aa_timeout : Z;
  aa_allow : option (list descriptor); aa_uv : pystr }.

Record request_options := {
  ro_challenge : bytes; ro_timeout : option Z; ro_rp_id : option pystr;
  ro_allow : option (list descriptor); ro_uv : option pystr }.

Definition is_nil {A} (l : list A) : bool := match l with [] => true | _ => false end.
Definition opt_nonempty {A} (o : option (list A)) : option (list A) :=
  match o with Some l => if is_nil l then None else Some l | None => None end.

Definition public_key_t : pystr := s2l "public-key".
Definition params_of (algs : list Z) : list (pystr * Z) := map (fun a => (public_key_t, a)) algs.

(* the OS random source: draw i = the i-th 64-byte value secrets.token_bytes(64) returns *)
Section Gen.
  Variable draw : nat -> bytes.

  (* -> (options, number of draws consumed) starting at draw index n *)
  Definition gen_reg (a : reg_args) (n : nat) : res (creation_options * nat) :=
    if is_nil (ra_rp_id a) then Err (Py ValueError)
    else if is_nil (ra_rp_name a) then Err (Py ValueError)
    else if is_nil (ra_user_name a) then Err (Py ValueError)
    else
      let '(uid, n1) := match opt_nonempty (ra_user_id a) with Some u => (u, n) | None => (draw n, S n) end in
      let dn := match opt_nonempty (ra_display_name a) with Some d => d | None => ra_user_name a end in
      let params := match opt_nonempty (ra_algs a) with
                    | Some l => params_of l
                    | None => params_of default_algs_generator
                    end in
      let '(ch, n2) := match opt_nonempty (ra_challenge a) with Some c => (c, n1) | None => (draw n1, S n1) end in
      let excl := match opt_nonempty (ra_exclude a) with Some l => l | None => [] end in
      let sel := match ra_auth_sel a with
                 | Some s =>
                     Some (if match as_resident_key s with Some rk => str_eqb rk (s2l "required") | None => false end
                           then {| as_attachment := as_attachment s; as_resident_key := as_resident_key s;
                                   as_require_rk := Some true; as_uv := as_uv s |}
                           else s)
                 | None => None
                 end in
      Ok ({| co_rp_id := Some (ra_rp_id a); co_rp_name := ra_rp_name a;
             co_user_id := uid; co_user_name := ra_user_name a; co_display_name := dn;
             co_challenge := ch; co_params := params; co_timeout := Some (ra_timeout a);
             co_exclude := Some excl; co_auth_sel := sel;
             co_attestation := Some (ra_attestation a); co_hints := ra_hints a |}, n2).

  Definition gen_auth (a : auth_args) (n : nat) : res (request_options * nat) :=
    if is_nil (aa_rp_id a) then Err (Py ValueError)
    else
      let '(ch, n1) := match opt_nonempty (aa_challenge a) with Some c => (c, n) | None => (draw n, S n) end in
      let allow := match opt_nonempty (aa_allow a) with Some l => l | None => [] end in
      Ok ({| ro_challenge := ch; ro_timeout := Some (aa_timeout a); ro_rp_id := Some (aa_rp_id a);
             ro_allow := Some allow; ro_uv := Some (aa_uv a) |}, n1).
End Gen.
