(* helpers/parse_authentication_credential_json.py, parse_registration_credential_json.py *)
From Coq Require Import ZArith List Bool String.
From PW Require Import Model.Base Model.Json Model.Base64 Model.Oracles Generated.Constants.
Import ListNotations.
Open Scope Z_scope.

Record auth_cred := {
  acr_id : pystr; acr_raw_id : bytes; acr_type : pystr;
  acr_client_data : bytes; acr_auth_data : bytes; acr_signature : bytes;
  acr_user_handle : option bytes; acr_attachment : option pystr }.

Record reg_cred := {
  rcr_id : pystr; rcr_raw_id : bytes; rcr_type : pystr;
  rcr_client_data : bytes; rcr_att_obj : bytes;
  rcr_transports : option (list pystr); rcr_attachment : option pystr }.

(* credential argument: JSON text | dict | already-parsed record *)
Inductive cred_in (R : Type) := InText (s : pystr) | InDict (j : json) | InRec (r : R).
Arguments InText {R} s. Arguments InDict {R} j. Arguments InRec {R} r.

Definition enum_has (e : list (string * string)) (v : json) : bool :=
  existsb (fun p => jstr_is v (s2l (snd p))) e.

Definition public_key_s : pystr := s2l "public-key".

(* json.loads of text input + the isinstance(json_val, dict) test *)
Definition load_obj (O : oracles) (inp : pystr + json) : res (list (pystr * json)) :=
  let* j := match inp with
            | inl s => match o_json_loads O true s with
                       | JOk j => Ok j
                       | JDecodeError => Err (Lib InvalidJSONStructure)
                       | JUnicodeError => Err (Lib InvalidJSONStructure)     (* `except ValueError` since the F10 fix *)
                       | JOtherError => Err Unmodelled
                       end
            | inr j => Ok j
            end in
  match j with JObj m => Ok m | _ => Err (Lib InvalidJSONStructure) end.

Definition get_str (m : list (pystr * json)) (k : string) : res pystr :=
  match jget_none m (s2l k) with JStr s => Ok s | _ => Err (Lib InvalidJSONStructure) end.
Definition get_obj (m : list (pystr * json)) (k : string) : res (list (pystr * json)) :=
  match jget_none m (s2l k) with JObj o => Ok o | _ => Err (Lib InvalidJSONStructure) end.

Definition parse_attachment (m : list (pystr * json)) : res (option pystr) :=
  match jget_none m (s2l "authenticatorAttachment") with
  | JStr s => if enum_has attachment_enum (JStr s) then Ok (Some s) else Err (Lib InvalidJSONStructure)
  | _ => Ok None
  end.

(* try: ... except Exception -> wrapped *)
Definition wrap {A} (c : lib_exn) (r : res A) : res A :=
  match r with Ok a => Ok a | Err Unmodelled => Err Unmodelled | Err _ => Err (Lib c) end.

Definition parse_auth_cred_json (O : oracles) (inp : pystr + json) : res auth_cred :=
  let* m := load_obj O inp in
  let* cid := get_str m "id" in
  let* raw := get_str m "rawId" in
  let* resp := get_obj m "response" in
  let* cdj := get_str resp "clientDataJSON" in
  let* ad := get_str resp "authenticatorData" in
  let* sg := get_str resp "signature" in
  guard (enum_has cred_type_enum (jget_none m (s2l "type"))) (Lib InvalidJSONStructure) ;;;
  let* uh := match jget_none resp (s2l "userHandle") with
             | JStr s => wrap InvalidAuthenticationResponse (let* b := b64url_dec s in Ok (Some b))
             | JNull => Ok None
             | _ => Err (Lib InvalidJSONStructure)
             end in
  let* att := parse_attachment m in
  wrap InvalidAuthenticationResponse (
    let* raw_b := b64url_dec raw in
    let* cdj_b := b64url_dec cdj in
    let* ad_b := b64url_dec ad in
    let* sg_b := b64url_dec sg in
    Ok {| acr_id := cid; acr_raw_id := raw_b; acr_type := public_key_s;
          acr_client_data := cdj_b; acr_auth_data := ad_b; acr_signature := sg_b;
          acr_user_handle := uh; acr_attachment := att |}).

Definition parse_reg_cred_json (O : oracles) (inp : pystr + json) : res reg_cred :=
  let* m := load_obj O inp in
  let* cid := get_str m "id" in
  let* raw := get_str m "rawId" in
  let* resp := get_obj m "response" in
  let* cdj := get_str resp "clientDataJSON" in
  let* ao := get_str resp "attestationObject" in
  guard (enum_has cred_type_enum (jget_none m (s2l "type"))) (Lib InvalidJSONStructure) ;;;
  let tr := match jget_none resp (s2l "transports") with
            | JArr l => Some (flat_map (fun v => match v with
                                                 | JStr s => if enum_has transport_enum v then [s] else []
                                                 | _ => [] end) l)
            | _ => None
            end in
  let* att := parse_attachment m in
  wrap InvalidRegistrationResponse (
    let* raw_b := b64url_dec raw in
    let* cdj_b := b64url_dec cdj in
    let* ao_b := b64url_dec ao in
    Ok {| rcr_id := cid; rcr_raw_id := raw_b; rcr_type := public_key_s;
          rcr_client_data := cdj_b; rcr_att_obj := ao_b;
          rcr_transports := tr; rcr_attachment := att |}).
