(* External libraries as explicit oracles (one record, passed as an ordinary argument). *)
From Coq Require Import ZArith List Bool.
From PW Require Import Model.Base Model.SigTypes Model.Json.
Import ListNotations.
Open Scope Z_scope.

(* abstract public keys.  EC curve ids: 1 = P-256, 2 = P-384, 3 = P-521 (COSE crv), anything else = other *)
Inductive pubkey :=
| PkEC (crv : Z) (x y : Z) | PkRSA (n e : Z) | PkEd (x : bytes) | PkOther (tag : Z).

Definition kind_of (k : pubkey) : key_kind :=
  match k with PkEC _ _ _ => KEC | PkRSA _ _ => KRSA | PkEd _ => KED | PkOther _ => KOTHER end.

(* what the format verifiers read from an X.509 certificate (cryptography / asn1crypto) *)
Inductive san_info :=
| SanAbsent | SanEmpty | SanNotDirectory
| SanDir (attrs : list (pystr * pystr)).       (* first general name is a directoryName: (oid, str(value)) *)

Record key_desc := {                            (* android KeyDescription *)
  kd_challenge : bytes;
  kd_sw_all_apps : bool;                        (* allApplications PRESENT in softwareEnforced *)
  kd_tee_all_apps : bool;
  kd_tee_origin : option Z;
  kd_tee_purpose : option (list Z) }.

Record cert := {
  c_key : pubkey;
  c_spki : bytes;                               (* DER SubjectPublicKeyInfo *)
  c_pem : bytes;                                (* public_bytes(Encoding.PEM) *)
  c_version : Z;                                (* 1 / 3 *)
  c_subject_len : Z;
  c_subject_cns : list pystr;                   (* values of CN attributes, in order *)
  c_san : san_info;
  c_eku : option (list pystr);                  (* dotted OIDs *)
  c_basic_ca : option bool;
  c_apple_ext : option bytes;                   (* raw value of 1.2.840.113635.100.8.2 *)
  c_android_ext : option (option key_desc) }.   (* 1.3.6.1.4.1.11129.2.1.17: absent | unparseable | parsed *)

Inductive chain_res := ChainOk | ChainInvalid | ChainOtherError.

Record oracles := {
  o_hash : hash_alg -> bytes -> bytes;
  o_json_loads : bool -> list Z -> jres;        (* true: str input (code points); false: bytes input *)
  o_key_ok : pubkey -> bool;                    (* cryptography accepts the numbers (point on curve...) *)
  o_verify : pubkey -> scheme -> bytes -> bytes -> bool;   (* key scheme signature message *)
  o_spki : pubkey -> bytes;
  o_cert : bytes -> option cert;                (* load_der_x509_certificate; None = ValueError *)
  o_chain : Z -> list bytes -> list bytes -> chain_res    (* now, x5c (DER), roots (PEM) *)
}.

Definition sha256 (O : oracles) := o_hash O SHA256.
