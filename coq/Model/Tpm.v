(* helpers/tpm/parse_cert_info.py, parse_pub_area.py, structs.py (the parts that compute) *)
From Coq Require Import ZArith List Bool String.
From PW Require Import Model.Base Generated.Constants.
Import ListNotations.
Open Scope Z_scope.

(* table look-up by a byte slice: key = (length, big-endian value); missing = KeyError *)
Fixpoint tbl_get (t : list ((Z * Z) * string)) (k : bytes) : option string :=
  match t with
  | [] => None
  | ((l, v), name) :: r => if (l =? len k) && (v =? be_int k) then Some name else tbl_get r k
  end.
Definition tbl_must (t : list ((Z * Z) * string)) (k : bytes) : res string :=
  match tbl_get t k with Some n => Ok n | None => Err (Py KeyError) end.

Record clock_info := { ck_clock : bytes; ck_reset : Z; ck_restart : Z; ck_safe : bool }.
Record cert_info := {
  ci_magic : bytes; ci_type : string; ci_qualified_signer : bytes; ci_extra_data : bytes;
  ci_clock : clock_info; ci_firmware : bytes;
  ci_name_alg : string; ci_name_alg_bytes : bytes; ci_name : bytes; ci_qualified_name : bytes }.

Definition parse_cert_info (v : bytes) : res cert_info :=
  let magic := slice 0 4 v in
  let* ty := tbl_must tpm_st_map (slice 4 6 v) in
  let qs_len := be_int (slice 6 8 v) in
  let qs := slice 8 (8 + qs_len) v in
  let p := 8 + qs_len in
  let ed_len := be_int (slice p (p + 2) v) in
  let ed := slice (p + 2) (p + 2 + ed_len) v in
  let p := p + 2 + ed_len in
  let clock := slice p (p + 17) v in
  let p := p + 17 in
  let fw := slice p (p + 8) v in
  let p := p + 8 in
  if negb (String.eqb ty "ATTEST_CERTIFY") then Err (Lib InvalidTPMCertInfoStructure) else
  let an_len := be_int (slice p (p + 2) v) in
  let an := slice (p + 2) (p + 2 + an_len) v in
  let p := p + 2 + an_len in
  let qn_len := be_int (slice p (p + 2) v) in
  let qn := slice (p + 2) (p + 2 + qn_len) v in
  (* TPMCertInfoAttested(...) is evaluated before TPMCertInfoClockInfo(...) *)
  let* nalg := tbl_must tpm_alg_map (slice 0 2 an) in
  if len clock <? 17 then Err (Py IndexError) else
  Ok {| ci_magic := magic; ci_type := ty; ci_qualified_signer := qs; ci_extra_data := ed;
        ci_clock := {| ck_clock := slice 0 8 clock; ck_reset := be_int (slice 8 12 clock);
                       ck_restart := be_int (slice 12 16 clock); ck_safe := negb (nth 16 clock 0 =? 0) |};
        ci_firmware := fw; ci_name_alg := nalg; ci_name_alg_bytes := slice 0 2 an; ci_name := an;
        ci_qualified_name := qn |}.

Inductive pub_params :=
| RSAParams (sym scheme : string) (key_bits exponent : bytes)
| ECCParams (sym scheme curve kdf : string).

Record pub_area := {
  pa_type : string; pa_name_alg : string; pa_attrs : Z; pa_auth_policy : bytes;
  pa_params : pub_params; pa_unique : bytes }.

(* attrs & (1 << k) != 0 *)
Definition attr_bit (a k : Z) : bool := negb (Z.land a (Z.shiftl 1 k) =? 0).
(* fixed_tpm st_clear fixed_parent sensitive_data_origin user_with_auth admin_with_policy no_da
   encrypted_duplication restricted decrypt sign_or_encrypt *)
Definition attr_positions : list Z := [1; 2; 4; 5; 6; 7; 10; 11; 16; 17; 18].

Definition parse_pub_area (v : bytes) : res pub_area :=
  let* ty := tbl_must tpm_alg_map (slice 0 2 v) in
  let* nalg := tbl_must tpm_alg_map (slice 2 4 v) in
  let attrs := be_int (slice 4 8 v) in
  let ap_len := be_int (slice 8 10 v) in
  let ap := slice 10 (10 + ap_len) v in
  let p := 10 + ap_len in
  if String.eqb ty "RSA" then
    let ps := slice p (p + 10) v in
    let p := p + 10 in
    let* sym := tbl_must tpm_alg_map (slice 0 2 ps) in
    let* sch := tbl_must tpm_alg_map (slice 2 4 ps) in
    let u := drop p v in
    let ul := be_int (slice 0 2 u) in
    Ok {| pa_type := ty; pa_name_alg := nalg; pa_attrs := attrs; pa_auth_policy := ap;
          pa_params := RSAParams sym sch (slice 4 6 ps) (slice 6 10 ps);
          pa_unique := slice 2 (2 + ul) u |}
  else if String.eqb ty "ECC" then
    let ps := slice p (p + 8) v in
    let p := p + 8 in
    let* sym := tbl_must tpm_alg_map (slice 0 2 ps) in
    let* sch := tbl_must tpm_alg_map (slice 2 4 ps) in
    let* crv := tbl_must tpm_ecc_curve_map (slice 4 6 ps) in
    let* kdf := tbl_must tpm_alg_map (slice 6 8 ps) in
    let u := drop p v in
    let xl := be_int (slice 0 2 u) in
    let x := slice 2 (2 + xl) u in
    let q := 2 + xl in
    let yl := be_int (slice q (q + 2) u) in
    let y := slice (q + 2) (q + 2 + yl) u in
    Ok {| pa_type := ty; pa_name_alg := nalg; pa_attrs := attrs; pa_auth_policy := ap;
          pa_params := ECCParams sym sch crv kdf; pa_unique := x ++ y |}
  else Err (Lib InvalidTPMPubAreaStructure).

Fixpoint str_assoc (t : list (string * Z)) (k : string) : option Z :=
  match t with [] => None | (n, v) :: r => if String.eqb n k then Some v else str_assoc r k end.

Definition manufacturer_known (id : pystr) : bool :=
  existsb (fun m => str_eqb id (s2l m)) tpm_manufacturers.
