(* cbor2.loads (first item, rest ignored) / cbor2.dumps on the modelled subset:
   ints (64-bit heads), byte strings, strict-UTF-8 text strings, arrays, maps with int/bytes/text keys
   (Python dict semantics: later duplicate overwrites the value, first position kept), false/true/null/
   undefined.  Everything else (tags, floats, simple values, indefinite lengths, other key types)
   answers DUnm ("outside the modelled subset"). *)
From Coq Require Import ZArith List Bool.
From PW Require Import Model.Base Model.Utf8.
Import ListNotations.
Open Scope Z_scope.

Inductive cbor :=
| CInt (z : Z) | CBytes (b : bytes) | CText (b : bytes)
| CArr (l : list cbor) | CMap (m : list (cbor * cbor))
| CBool (b : bool) | CNull | CUndef.

Inductive dres := DOk (v : cbor) (rest : bytes) | DErr | DUnm.

(* ---- encoder ---- *)
Definition be_bytes (k : nat) (n : Z) : bytes :=   (* k bytes, big endian *)
  (fix go (k : nat) (n : Z) (acc : bytes) : bytes :=
     match k with O => acc | S k' => go k' (n / 256) (n mod 256 :: acc) end) k n [].

Definition cbor_head (mt n : Z) : bytes :=
  if n <? 24 then [mt * 32 + n]
  else if n <? 256 then [mt * 32 + 24; n]
  else if n <? 65536 then (mt * 32 + 25) :: be_bytes 2 n
  else if n <? 4294967296 then (mt * 32 + 26) :: be_bytes 4 n
  else (mt * 32 + 27) :: be_bytes 8 n.

Fixpoint cbor_enc (v : cbor) : bytes :=
  match v with
  | CInt z => if 0 <=? z then cbor_head 0 z else cbor_head 1 (-1 - z)
  | CBytes b => cbor_head 2 (len b) ++ b
  | CText b => cbor_head 3 (len b) ++ b
  | CArr l => cbor_head 4 (len l) ++ concat (map cbor_enc l)
  | CMap m => cbor_head 5 (len m) ++ concat (map (fun kv => cbor_enc (fst kv) ++ cbor_enc (snd kv)) m)
  | CBool false => [244]
  | CBool true => [245]
  | CNull => [246]
  | CUndef => [247]
  end.

(* ---- decoder ---- *)
Inductive argres := ArgOk (n : Z) (rest : bytes) | ArgErr | ArgIndef.

Definition take_arg (k : Z) (r : bytes) : argres :=
  if len r <? k then ArgErr else ArgOk (be_int (slice 0 k r)) (drop k r).

Definition dec_arg (ai : Z) (r : bytes) : argres :=
  if ai <? 24 then ArgOk ai r
  else if ai =? 24 then take_arg 1 r
  else if ai =? 25 then take_arg 2 r
  else if ai =? 26 then take_arg 4 r
  else if ai =? 27 then take_arg 8 r
  else if ai =? 31 then ArgIndef
  else ArgErr.

Definition key_ok (k : cbor) : bool :=
  match k with CInt _ | CBytes _ | CText _ => true | _ => false end.

Definition key_eqb (a b : cbor) : bool :=
  match a, b with
  | CInt x, CInt y => x =? y
  | CBytes x, CBytes y => bytes_eqb x y
  | CText x, CText y => bytes_eqb x y
  | _, _ => false
  end.

(* dict[k] = v *)
Fixpoint dict_set (m : list (cbor * cbor)) (k v : cbor) : list (cbor * cbor) :=
  match m with
  | [] => [(k, v)]
  | (k', v') :: r => if key_eqb k' k then (k', v) :: r else (k', v') :: dict_set r k v
  end.

Fixpoint dict_get (m : list (cbor * cbor)) (k : cbor) : option cbor :=
  match m with
  | [] => None
  | (k', v') :: r => if key_eqb k' k then Some v' else dict_get r k
  end.

Inductive lres (A : Type) := LOk (a : A) (rest : bytes) | LErr | LUnm.
Arguments LOk {A} a rest. Arguments LErr {A}. Arguments LUnm {A}.

Section Items.
  Variable decf : bytes -> dres.
  Fixpoint dec_items (n : nat) (s : bytes) : lres (list cbor) :=
    match n with
    | O => LOk [] s
    | S n' => match decf s with
              | DOk v r => match dec_items n' r with
                           | LOk l r' => LOk (v :: l) r'
                           | LErr => LErr | LUnm => LUnm
                           end
              | DErr => LErr | DUnm => LUnm
              end
    end.
  (* pairs are accumulated with Python-dict semantics *)
  Fixpoint dec_pairs (n : nat) (s : bytes) (acc : list (cbor * cbor)) : lres (list (cbor * cbor)) :=
    match n with
    | O => LOk acc s
    | S n' => match decf s with
              | DOk k r =>
                  match decf r with
                  | DOk v r' => if key_ok k then dec_pairs n' r' (dict_set acc k v) else LUnm
                  | DErr => LErr | DUnm => LUnm
                  end
              | DErr => LErr | DUnm => LUnm
              end
    end.
End Items.

Fixpoint cbor_dec (fuel : nat) (s : bytes) : dres :=
  match fuel with
  | O => DUnm
  | S f =>
      match s with
      | [] => DErr
      | b :: r =>
          let mt := b / 32 in
          let ai := b mod 32 in
          if mt =? 7 then
            (if ai =? 20 then DOk (CBool false) r else if ai =? 21 then DOk (CBool true) r
             else if ai =? 22 then DOk CNull r else if ai =? 23 then DOk CUndef r
             else if ai =? 31 then DErr else DUnm)
          else if mt =? 6 then DUnm
          else
            match dec_arg ai r with
            | ArgErr => DErr
            | ArgIndef => if (mt =? 0) || (mt =? 1) then DErr else DUnm
            | ArgOk n r' =>
                if mt =? 0 then DOk (CInt n) r'
                else if mt =? 1 then DOk (CInt (-1 - n)) r'
                else if mt =? 2 then
                  (if len r' <? n then DErr else DOk (CBytes (slice 0 n r')) (drop n r'))
                else if mt =? 3 then
                  (if len r' <? n then DErr
                   else if utf8_ok (slice 0 n r') then DOk (CText (slice 0 n r')) (drop n r') else DErr)
                else if mt =? 4 then
                  (if len r' <? n then DErr
                   else match dec_items (cbor_dec f) (Z.to_nat n) r' with
                        | LOk l r'' => DOk (CArr l) r''
                        | LErr => DErr | LUnm => DUnm
                        end)
                else
                  (if len r' <? n then DErr
                   else match dec_pairs (cbor_dec f) (Z.to_nat n) r' [] with
                        | LOk m r'' => DOk (CMap m) r''
                        | LErr => DErr | LUnm => DUnm
                        end)
            end
      end
  end.

(* nesting beyond max_depth is outside the modelled subset (cbor2 recurses on the C stack / CPython's recursion limit there) *)
Definition max_depth : nat := 256.
Definition cbor_loads (s : bytes) : dres := cbor_dec (Nat.min (S (length s)) max_depth) s.

(* helpers.parse_cbor / encode_cbor *)
Definition parse_cbor (s : bytes) : res cbor :=
  match cbor_loads s with
  | DOk v _ => Ok v
  | DErr => Err (Lib InvalidCBORData)
  | DUnm => Err Unmodelled
  end.

(* Python truthiness of a decoded value: `if not x` *)
Definition cbor_falsy (v : cbor) : bool :=
  match v with
  | CInt z => z =? 0
  | CBytes b | CText b => match b with [] => true | _ => false end
  | CArr l => match l with [] => true | _ => false end
  | CMap m => match m with [] => true | _ => false end
  | CBool b => negb b
  | CNull | CUndef => true
  end.

(* Python `v == n` for an int n (True == 1, False == 0) *)
Definition cbor_eq_int (v : cbor) (n : Z) : bool :=
  match v with
  | CInt z => z =? n
  | CBool b => (if b then 1 else 0) =? n
  | _ => false
  end.

Definition cbor_eq_text (v : cbor) (s : bytes) : bool :=
  match v with CText b => bytes_eqb b s | _ => false end.
