(* List aliasing discipline of the library (C18): which Python list objects are created per call and which
   module-level lists exist.  Objects are lists of abstract items at heap addresses. *)
From Coq Require Import ZArith List Bool.
From PW Require Import Model.Base.
Import ListNotations.
Open Scope nat_scope.

Definition addr := nat.
Definition heap := list (list Z).
Definition h_get (h : heap) (a : addr) : list Z := nth a h [].
Fixpoint h_set (h : heap) (a : addr) (v : list Z) : heap :=
  match h, a with
  | [], _ => []
  | _ :: r, O => v :: r
  | x :: r, S a' => x :: h_set r a' v
  end.

(* ---- verify_registration_response and the trust-anchor lists ----
     pem_root_certs_bytes = []                         new object
     pem_root_certs_bytes.extend(custom_certs)         contents of the caller's list are copied
     <format verifier>: pem_root_certs_bytes.append(built-in root)...   mutates the NEW object *)
Definition verify_roots (h : heap) (caller : option addr) (builtin : list Z) : heap * addr :=
  let fresh := length h in
  let h1 := h ++ [[]] in
  let h2 := match caller with Some a => h_set h1 fresh (h_get h1 fresh ++ h_get h1 a) | None => h1 end in
  (h_set h2 fresh (h_get h2 fresh ++ builtin), fresh).

(* ---- generate_registration_options and the default parameter list ----
   address 0: module-level default_supported_pub_key_params; address 1: module-level default_supported_pub_key_algs.
   A call without an algorithm list builds a NEW list from the algorithms at address 1 and returns it. *)
Definition gen_default (h : heap) : heap * addr := (h ++ [h_get h 1], length h).

Inductive op := OGen | OMutate (i : nat) (v : list Z).     (* mutate the i-th object handed back so far *)
Record st := { s_heap : heap; s_returned : list addr; s_outputs : list (list Z) }.

Definition step (s : st) (o : op) : st :=
  match o with
  | OGen => let '(h, a) := gen_default (s_heap s) in
            {| s_heap := h; s_returned := s_returned s ++ [a]; s_outputs := s_outputs s ++ [h_get h a] |}
  | OMutate i v =>
      match nth_error (s_returned s) i with
      | Some a => {| s_heap := h_set (s_heap s) a v; s_returned := s_returned s; s_outputs := s_outputs s |}
      | None => s
      end
  end.

Definition init (params algs : list Z) : st := {| s_heap := [params; algs]; s_returned := []; s_outputs := [] |}.
